(** * Chain: linear pipelines of components, and the composition theorem.

    The per-component theorems (Inv_*.v) are about ONE operator between environment puppets.
    A program of the crate wires operators to each other: [pipe!(source, op1, .., opk, sink)].
    Here a pipeline is a list of component configurations; node [i]'s upstream port 0 is wired
    to node [i-1]'s sink 0, node 0's port 0 and every other port are external, the last node's
    sink is external.  When a node's handler makes a call on a wired port, the neighbour's
    handler runs (an internal step, [NTau]) - its input is the translation of the call - and when
    a handler returns, control goes back to whoever called it.  Nothing but the components' own
    [step] functions is used: a net step is a [step] of exactly one node.

    The environment of the net is the conformant environment of Machine.v at the external ports,
    with local reaction at net level: while an external call is pending only that peer acts.

    [chain_sound]: if every node is safe in its regime (the per-component theorems), then in
    every reachable net every node's configuration is REACHABLE IN ITS OWN CONFORMANT
    ENVIRONMENT - each neighbour is, towards the node, a conformant peer (assume-guarantee, by
    induction on the run; the guarantee of one node at step k discharges the assumption of its
    neighbour at step k+1).  Hence every per-component theorem holds for every node of every
    pipeline, of any length, in any external environment.  *)

From CB Require Import ProofLib Spec.

Set Implicit Arguments.

(** ** Nodes *)

Record node : Type := mk_node {
  nop : op;
  npar : mparams;
  ngrd : mstate -> input -> bool;
  ncfg : cfg nop;
}.

Definition nstep (n : node) (m : move) : node :=
  mk_node (npar n) (ngrd n) (step (npar n) (ncfg n) m).

Definition nms (n : node) : mstate := ms (ncfg n).
Definition nlast (n : node) : option event := hd_error (rtrace (ncfg n)).
Definition nenabled (n : node) (m : move) : bool := enabled (npar n) (ngrd n) (ncfg n) m.
Definition nreach (n : node) : Prop := reach (npar n) (ngrd n) (ncfg n).
Definition ninit (n : node) : Prop := ncfg n = cfg0 (nop n).

(** what a node is, as opposed to where it is in its run *)
Definition nsig (n : node) : op * mparams * (mstate -> input -> bool) := (nop n, npar n, ngrd n).

Definition safe_sig (s : op * mparams * (mstate -> input -> bool)) : Prop :=
  let '(o, p, g) := s in
  forall c : cfg o, reach p g c -> viols (ms c) = [] /\ dead c = false.

Lemma nsig_nstep n m : nsig (nstep n m) = nsig n.
Proof. reflexivity. Qed.

(** ** Nets *)

Inductive gkind : Type := KExt | KUp | KDn.

Inductive pending : Type :=
| PIdle                              (* the environment's turn *)
| PTo (i : nat) (inp : input)        (* a node called its neighbour [i]: [i] runs [inp] next *)
| PRet (j : nat).                    (* the activation [j] called has returned: [j] resumes next *)

Record net : Type := mk_net {
  nodes : list node;
  gst : list (nat * gkind);          (* pending calls of all nodes, innermost first *)
  pend : pending;
}.

Fixpoint set_nth (A : Type) (i : nat) (x : A) (l : list A) : list A :=
  match l, i with
  | [], _ => []
  | _ :: l', 0 => x :: l'
  | y :: l', S i' => y :: set_nth i' x l'
  end.

(** how a call of node [i] (of [len]) is routed *)
Definition route (len i : nat) (c : call) : gkind :=
  match c with
  | CSub 0 | CUp 0 _ => if 0 <? i then KUp else KExt
  | CDn 0 _ => if S i <? len then KDn else KExt
  | _ => KExt
  end.

Definition xlate (c : call) : input :=
  match c with
  | CSub _ => ISub 0 0
  | CUp _ u => IUp 0 u
  | CDn _ d => IDn 0 d
  end.

(** the node whose handler runs while the call [e] is pending *)
Definition owner_above (e : nat * gkind) : nat :=
  match e with
  | (j, KExt) => j
  | (j, KUp) => pred j
  | (j, KDn) => S j
  end.

(** node [i] has just made a step and is now [n']: where does control go? *)
Definition after_step (N : net) (i : nat) (n' : node) : net :=
  let nodes' := set_nth i n' (nodes N) in
  match nlast n' with
  | Some (ECall c) =>
      match route (length (nodes N)) i c with
      | KExt => mk_net nodes' ((i, KExt) :: gst N) PIdle
      | KUp => mk_net nodes' ((i, KUp) :: gst N) (PTo (pred i) (xlate c))
      | KDn => mk_net nodes' ((i, KDn) :: gst N) (PTo (S i) (xlate c))
      end
  | Some EDone =>
      match gst N with
      | (j, KUp) :: _ | (j, KDn) :: _ => mk_net nodes' (gst N) (PRet j)
      | _ => mk_net nodes' (gst N) PIdle
      end
  | _ => mk_net nodes' (gst N) PIdle
  end.

Inductive nmove : Type :=
| NEnv (i : nat) (m : move)          (* the environment acts on node [i] *)
| NTau.                              (* the pending internal transfer happens *)

Definition net_step (N : net) (mv : nmove) : net :=
  match mv, pend N with
  | NEnv i m, PIdle =>
      match nth_error (nodes N) i with
      | Some n =>
          let N1 := match m with
                    | MRet => mk_net (nodes N) (tl (gst N)) PIdle
                    | MIn _ => N
                    end in
          after_step N1 i (nstep n m)
      | None => N
      end
  | NTau, PTo i inp =>
      match nth_error (nodes N) i with
      | Some n => after_step N i (nstep n (MIn inp))
      | None => N
      end
  | NTau, PRet j =>
      match nth_error (nodes N) j with
      | Some n => after_step (mk_net (nodes N) (tl (gst N)) PIdle) j (nstep n MRet)
      | None => N
      end
  | _, _ => N
  end.

(** which external inputs exist at node [i] of [len] *)
Definition ext_input_ok (len i : nat) (inp : input) : bool :=
  match inp with
  | ISub _ _ | IUp _ _ => S i =? len
  | IDn 0 _ => i =? 0
  | IDn (S _) _ => true
  | ITick _ => true
  end.

(** the conformant environment of the net: the node-level conformance of Machine.v at the
    external port, and local reaction at net level *)
Definition net_enabled (N : net) (mv : nmove) : bool :=
  match mv, pend N with
  | NTau, PIdle => false
  | NTau, _ => true
  | NEnv i m, PIdle =>
      match nth_error (nodes N) i with
      | None => false
      | Some n =>
          nenabled n m &&
          match m with
          | MRet => match gst N with (j, KExt) :: _ => j =? i | _ => false end
          | MIn inp =>
              ext_input_ok (length (nodes N)) i inp &&
              match gst N with
              | [] => true
              | (j, KExt) :: _ => j =? i
              | _ => false
              end
          end
      end
  | NEnv _ _, _ => false
  end.

Inductive net_reach (N0 : net) : net -> Prop :=
| nreach0 : net_reach N0 N0
| nreachS N mv : net_reach N0 N -> net_enabled N mv = true -> net_reach N0 (net_step N mv).

(** ** Facts about one node step, in terms of the monitor state only *)

Section OneNode.
  Variable p : mparams.
  Variable o : op.
  Variable g : mstate -> input -> bool.

  Definition mon_move (m0 : mstate) (m : move) : mstate :=
    match m with
    | MIn i => mon_input p m0 i
    | MRet => mon_event p m0 ERet
    end.

  (** the fields the links between neighbours talk about *)
  Definition same_core (a b : mstate) : Prop :=
    subd a = subd b /\ sk a = sk b /\ us a = us b /\ refused a = refused b
    /\ cstack a = cstack b.

  Lemma same_core_refl a : same_core a a.
  Proof. repeat split. Qed.

  Lemma same_core_trans a b c : same_core a b -> same_core b c -> same_core a c.
  Proof. unfold same_core. intuition congruence. Qed.

  Lemma obs_core os m0 : same_core (fold_left (mon_event p) (map EObs os) m0) m0.
  Proof.
    revert m0. induction os as [|ob os IH]; intros m0; cbn; [apply same_core_refl|].
    eapply same_core_trans; [apply IH|].
    destruct ob as [r|v|s [|]|s]; cbn; apply same_core_refl || (repeat split).
  Qed.

  Lemma done_core m0 : same_core (mon_event p m0 EDone) m0.
  Proof.
    cbn. destruct (cstack m0); [|apply same_core_refl].
    rewrite add_viols_eq. repeat split.
  Qed.

  (** summary of one enabled step that ends without violation and without panic *)
  Inductive step_sum (c : cfg o) (m : move) : Prop :=
  | sum_call (m1 : mstate) (cl : call) :
      same_core m1 (mon_move (ms c) m) ->
      hd_error (rtrace (step p c m)) = Some (ECall cl) ->
      check_call p m1 cl = [] ->
      same_core (ms (step p c m)) (set_cstack (mon_call_upd m1 cl) (cl :: cstack m1)) ->
      step_sum c m
  | sum_done :
      hd_error (rtrace (step p c m)) = Some EDone ->
      same_core (ms (step p c m)) (mon_move (ms c) m) ->
      step_sum c m.

  Lemma viols_add_nil vs m0 : viols (add_viols vs m0) = [] -> vs = [].
  Proof. rewrite add_viols_eq. cbn. intros H. now apply app_eq_nil in H. Qed.

  Lemma settle_sum (m0 : mstate) os (a : act (Fr o)) :
    viols (ms_settle p o m0 os a) = [] ->
    (exists m1 cl k, a = ACall cl k /\ same_core m1 m0 /\ check_call p m1 cl = [] /\
                     same_core (ms_settle p o m0 os a)
                               (set_cstack (mon_call_upd m1 cl) (cl :: cstack m1)))
    \/ (a = ARet /\ same_core (ms_settle p o m0 os a) m0)
    \/ a = APanic.
  Proof.
    intros Hv. unfold ms_settle in *.
    set (m1 := fold_left (mon_event p) (map EObs os) m0) in *.
    assert (H1 : same_core m1 m0) by apply obs_core.
    destruct a as [| |cl k].
    - right. left. split; [reflexivity|].
      eapply same_core_trans; [apply done_core | exact H1].
    - right. right. reflexivity.
    - left. exists m1, cl, k. split; [reflexivity|]. split; [exact H1|].
      cbn [mon_event] in *. split; [now apply viols_add_nil in Hv|].
      rewrite add_viols_eq, mon_call_upd_cstack. repeat split.
  Qed.

  Lemma step_summary (c : cfg o) (m : move) :
    enabled p g c m = true ->
    viols (ms (step p c m)) = [] -> dead (step p c m) = false ->
    step_sum c m.
  Proof.
    intros He Hv Hd.
    pose proof (enabled_live _ _ _ _ He) as Hlive.
    destruct m as [i|].
    - pose proof (enabled_deliverable _ _ _ _ He) as Hdel.
      destruct (handle o i (cst c)) as [[s' os] a] eqn:Hh.
      destruct (step_in p c i Hlive Hdel Hh) as (_ & _ & Hm & Hdd).
      pose proof (step_in_rtrace p c i Hlive Hdel Hh) as Hr.
      rewrite Hm in Hv.
      destruct (settle_sum _ _ _ Hv) as [(m1 & cl & k & -> & H1 & H2 & H3)|[[-> H1]| ->]].
      + eapply sum_call with (m1 := m1) (cl := cl); [exact H1| |exact H2|].
        * rewrite Hr. reflexivity.
        * rewrite Hm. exact H3.
      + apply sum_done; [rewrite Hr; reflexivity | rewrite Hm; exact H1].
      + rewrite Hdd in Hd. discriminate.
    - destruct (enabled_ret_stack _ _ _ He) as (k & cl & rest & Hst).
      destruct (resume o k (cst c)) as [[s' os] a] eqn:Hh.
      destruct (step_ret p c Hlive Hst Hh) as (_ & _ & Hm & Hdd).
      pose proof (step_ret_rtrace p c Hlive Hst Hh) as Hr.
      rewrite Hm in Hv.
      destruct (settle_sum _ _ _ Hv) as [(m1 & cl' & k' & -> & H1 & H2 & H3)|[[-> H1]| ->]].
      + eapply sum_call with (m1 := m1) (cl := cl'); [exact H1| |exact H2|].
        * rewrite Hr. reflexivity.
        * rewrite Hm. exact H3.
      + apply sum_done; [rewrite Hr; reflexivity | rewrite Hm; exact H1].
      + rewrite Hdd in Hd. discriminate.
  Qed.

  (** from the initial configuration only a subscription is possible *)
  Lemma enabled_cfg0 m :
    nsinks p = 1 -> enabled p g (cfg0 o) m = true -> exists aux, m = MIn (ISub 0 aux).
  Proof.
    intros Hn He. unfold enabled in He. cbn in He.
    destruct m as [[s aux|s u|i d|s]|]; cbn in He; try discriminate.
    - apply andb_prop in He. destruct He as [_ He]. apply andb_prop in He. destruct He as [He _].
      rewrite Hn in He. destruct s as [|s]; [now exists aux|]. cbn in He. discriminate.
    - rewrite andb_false_r in He. discriminate.
    - destruct d; cbn in He; rewrite ?andb_false_r in He; discriminate.
    - rewrite andb_false_r in He. discriminate.
  Qed.
End OneNode.

(** ** Lists of nodes *)

Lemma set_nth_length A i (x : A) l : length (set_nth i x l) = length l.
Proof. revert i. induction l as [|y l IH]; intros [|i]; cbn; auto. Qed.

Lemma nth_set_same A i (x y : A) l : nth_error l i = Some y -> nth_error (set_nth i x l) i = Some x.
Proof. revert i. induction l as [|z l IH]; intros [|i]; cbn; intros H; try discriminate; auto. Qed.

Lemma nth_set_other A i j (x : A) l : i <> j -> nth_error (set_nth i x l) j = nth_error l j.
Proof.
  revert i j. induction l as [|z l IH]; intros [|i] [|j] H; cbn; auto; try congruence.
Qed.

Lemma map_set_nth A B (f : A -> B) i x y l :
  nth_error l i = Some y -> f x = f y -> map f (set_nth i x l) = map f l.
Proof.
  revert i. induction l as [|z l IH]; intros [|i]; cbn; intros H E; try discriminate; auto.
  - inversion H; subst. now rewrite E.
  - now rewrite (IH i H E).
Qed.

Lemma nth_error_lt A (l : list A) i x : nth_error l i = Some x -> i < length l.
Proof. intros H. apply nth_error_Some. congruence. Qed.

(** ** The global stack of pending calls *)

Definition kinds_of (i : nat) (G : list (nat * gkind)) : list gkind :=
  map snd (filter (fun e => fst e =? i) G).

Lemma kinds_of_cons_same i k G : kinds_of i ((i, k) :: G) = k :: kinds_of i G.
Proof. unfold kinds_of. cbn. now rewrite Nat.eqb_refl. Qed.

Lemma kinds_of_cons_other i j k G : j <> i -> kinds_of i ((j, k) :: G) = kinds_of i G.
Proof. intros H. unfold kinds_of. cbn. destruct (Nat.eqb_spec j i); [contradiction|reflexivity]. Qed.

Definition kind_ok (len : nat) (e : nat * gkind) : Prop :=
  match e with
  | (j, KExt) => j < len
  | (j, KUp) => 0 < j /\ j < len
  | (j, KDn) => S j < len
  end.

Fixpoint wfG (len : nat) (G : list (nat * gkind)) : Prop :=
  match G with
  | [] => True
  | e :: G' => kind_ok len e /\ wfG len G' /\
               match G' with [] => True | e' :: _ => fst e = owner_above e' end
  end.

(** the node whose handler is running (or, at an idle point, may be entered) *)
Definition runner_ok (x : nat) (G : list (nat * gkind)) : Prop :=
  match G with [] => True | e :: _ => owner_above e = x end.

Lemma wfG_tl len e G : wfG len (e :: G) -> wfG len G /\ runner_ok (fst e) G.
Proof. cbn. intros (_ & H & H'). split; [exact H|]. destruct G; cbn; auto. Qed.

(** the innermost pending call of a node other than the running one is a call
    towards the running one *)
Lemma first_kind len G : forall x, wfG len G -> runner_ok x G ->
  forall i, (i < x -> match kinds_of i G with [] => True | k :: _ => k = KDn end) /\
            (x < i -> match kinds_of i G with [] => True | k :: _ => k = KUp end).
Proof.
  induction G as [|[j k] G IH]; intros x Hwf Hrun i; [split; intros; exact I|].
  destruct (wfG_tl Hwf) as [Hwf' Hrun']. cbn [fst] in Hrun'.
  destruct Hwf as (Hk & _ & _). cbn in Hrun. specialize (IH j Hwf' Hrun' i).
  destruct k; cbn in Hrun, Hk.
  - subst x. split; intros Hi; rewrite kinds_of_cons_other by lia; apply IH; exact Hi.
  - split; intros Hi.
    + rewrite kinds_of_cons_other by lia. apply IH. lia.
    + destruct (Nat.eq_dec j i) as [->|Hne]; [now rewrite kinds_of_cons_same|].
      rewrite kinds_of_cons_other by exact Hne. apply IH. lia.
  - split; intros Hi.
    + destruct (Nat.eq_dec j i) as [->|Hne]; [now rewrite kinds_of_cons_same|].
      rewrite kinds_of_cons_other by exact Hne. apply IH. lia.
    + rewrite kinds_of_cons_other by lia. apply IH. lia.
Qed.

Lemma route_dn len i c : route len i c = KDn -> exists d, c = CDn 0 d /\ S i < len.
Proof.
  destruct c as [[|j]|[|j] u|[|s] d]; unfold route;
    try (destruct (0 <? i)); try (destruct (S i <? len) eqn:E); intros H; try discriminate H.
  all: exists d; split; [reflexivity|]; apply Nat.ltb_lt in E; exact E.
Qed.

Lemma route_up len i c :
  route len i c = KUp -> (c = CSub 0 \/ exists u, c = CUp 0 u) /\ 0 < i.
Proof.
  destruct c as [[|j]|[|j] u|[|s] d]; unfold route; try (intros H; discriminate H).
  - destruct (0 <? i) eqn:E; intros H; [|discriminate H]. apply Nat.ltb_lt in E. auto.
  - destruct (0 <? i) eqn:E; intros H; [|discriminate H]. apply Nat.ltb_lt in E.
    split; [right; now exists u|exact E].
  - destruct (S i <? len); intros H; discriminate H.
Qed.

(** ** The core of a monitor state: what the links between neighbours read *)

Definition link (u d : mstate) : Prop :=
  match us d 0 with
  | UNone => subd u 0 = false
  | USubd => subd u 0 = true /\ sk u 0 = SNone
  | ULive => subd u 0 = true /\ sk u 0 = SLive
  | UEnded => subd u 0 = true /\ sk u 0 = SFinished
  | UStopped => subd u 0 = true /\ sk u 0 = SDisposed
  end.

Lemma link_ext u d u' d' :
  subd u' 0 = subd u 0 -> sk u' 0 = sk u 0 -> us d' 0 = us d 0 -> link u d -> link u' d'.
Proof. unfold link. intros -> -> ->. auto. Qed.

Lemma same_core_link_l u u' d : same_core u' u -> link u d -> link u' d.
Proof. intros (A & B & _) H. apply (@link_ext u d u' d); [now rewrite A | now rewrite B | reflexivity | exact H]. Qed.

Lemma same_core_link_r u d d' : same_core d' d -> link u d -> link u d'.
Proof. intros (_ & _ & C & _) H. apply (@link_ext u d u d'); [reflexivity | reflexivity | now rewrite C | exact H]. Qed.

(** ** The two transfers: a guarantee of the caller is the assumption of the callee *)

Section Transfer.
  Variable p : mparams.                   (* the callee's regime *)
  Variable o : op.
  Variable g : mstate -> input -> bool.
  Variable c : cfg o.                     (* the callee *)
  Hypothesis Hg : forall m inp, g m inp = g_std m inp.
  Hypothesis Hlive : dead c = false.

  Lemma top_peer_of_cstack q :
    cstack (ms c) = map snd (stack c) ->
    match cstack (ms c) with [] => True | cl :: _ => peer_of cl = q end ->
    top_peer_is c q = true.
  Proof.
    unfold top_peer_is. intros E H. destruct (stack c) as [|[k cl] rest]; [reflexivity|].
    rewrite E in H. cbn in H. rewrite H. destruct q; cbn; apply Nat.eqb_refl.
  Qed.

  (** the downstream neighbour (regime [pd], state [m1] just before the call) subscribes to, or
      uses the talkback of, the callee *)
  Lemma xfer_up (pd : mparams) (m1 : mstate) (cl : call) :
    resub pd = false -> nsinks p = 1 -> one_pull p = false ->
    (cl = CSub 0 \/ exists u, cl = CUp 0 u) ->
    check_call pd m1 cl = [] ->
    link (ms c) m1 ->
    (subd (ms c) 0 = false -> c = cfg0 o) ->
    top_peer_is c (PSink 0) = true ->
    enabled p g c (MIn (xlate cl)) = true /\
    link (mon_input p (ms c) (xlate cl)) (mon_call_upd m1 cl).
  Proof.
    intros Hrs Hns Hop Hcl Hchk Hlink Hinit Htop.
    destruct Hcl as [->|[u ->]]; cbn [xlate].
    - (* CSub 0 *)
      cbn in Hchk. rewrite Hrs in Hchk. cbn in Hchk.
      assert (Hus : us m1 0 = UNone).
      { destruct (us m1 0); cbn in Hchk; try discriminate; reflexivity. }
      unfold link in Hlink. rewrite Hus in Hlink. rewrite (Hinit Hlink).
      split.
      + unfold enabled. cbn. rewrite Hg, Hns. reflexivity.
      + unfold link. cbn. rewrite ?upd_same; cbn; rewrite ?upd_same; auto.
    - (* CUp 0 u *)
      cbn in Hchk. apply app_eq_nil in Hchk. destruct Hchk as [Hchk _].
      assert (Hus : us m1 0 = ULive).
      { destruct (us m1 0); cbn in Hchk; try discriminate; reflexivity. }
      unfold link in Hlink. rewrite Hus in Hlink. destruct Hlink as [Hsd Hsk].
      split.
      + unfold enabled. rewrite Hlive, Hg, Htop, Hsk, Hop. cbn. destruct u; reflexivity.
      + unfold link. destruct u as [|e|]; cbn.
        * rewrite Hus. auto.
        * rewrite ?upd_same; cbn; auto.
        * rewrite ?upd_same; cbn; auto.
  Qed.

  (** the upstream neighbour (regime [pu], state [m1] just before the call) delivers to the callee *)
  Lemma xfer_dn (pu : mparams) (m1 : mstate) (d : dmsg) :
    late_ok p = true -> pullable p = false ->
    check_call pu m1 (CDn 0 d) = [] ->
    link m1 (ms c) ->
    subd m1 0 = true -> refused m1 0 = None ->
    top_peer_is c (PUp 0) = true ->
    enabled p g c (MIn (IDn 0 d)) = true /\
    link (mon_call_upd m1 (CDn 0 d)) (mon_input p (ms c) (IDn 0 d)).
  Proof.
    intros Hlate Hpl Hchk Hlink Hsd Hrf Htop.
    destruct d as [|v|e|].
    - (* DH *)
      cbn in Hchk.
      assert (Hsk : sk m1 0 = SNone).
      { destruct (sk m1 0); cbn in Hchk; try discriminate; reflexivity. }
      assert (Hus : us (ms c) 0 = USubd).
      { unfold link in Hlink. revert Hlink. destruct (us (ms c) 0); intros Hlink; try reflexivity;
          try (match type of Hlink with _ /\ _ => destruct Hlink as [? ?] end); congruence. }
      split.
      + unfold enabled. rewrite Hlive, Hg, Htop, Hus, Hlate. reflexivity.
      + unfold link. cbn. rewrite Hsk. cbn. rewrite ?upd_same; cbn; auto.
    - (* DD *)
      cbn in Hchk. apply app_eq_nil in Hchk. destruct Hchk as [Hchk _].
      assert (Hsk : sk m1 0 = SLive).
      { destruct (sk m1 0); cbn in Hchk; try discriminate; reflexivity. }
      assert (Hus : us (ms c) 0 = ULive).
      { unfold link in Hlink. revert Hlink. destruct (us (ms c) 0); intros Hlink; try reflexivity;
          try (match type of Hlink with _ /\ _ => destruct Hlink as [? ?] end); congruence. }
      split.
      + unfold enabled. rewrite Hlive, Hg, Htop, Hus, Hpl. reflexivity.
      + unfold link. cbn. rewrite Hus. auto.
    - (* DE *)
      cbn in Hchk. apply app_eq_nil in Hchk. destruct Hchk as [Hchk _].
      assert (Hsk : sk m1 0 = SLive).
      { rewrite Hrf in Hchk. destruct (sk m1 0); cbn in Hchk; try discriminate; reflexivity. }
      assert (Hus : us (ms c) 0 = ULive).
      { unfold link in Hlink. revert Hlink. destruct (us (ms c) 0); intros Hlink; try reflexivity;
          try (match type of Hlink with _ /\ _ => destruct Hlink as [? ?] end); congruence. }
      split.
      + unfold enabled. rewrite Hlive, Hg, Htop, Hus, Hpl. reflexivity.
      + unfold link. cbn. rewrite Hsk. cbn. rewrite ?upd_same.
        destruct (err_due m1 0) as [e'|]; [destruct (Nat.eqb e e')|]; cbn; rewrite ?upd_same; auto.
    - (* DT *)
      cbn in Hchk. apply app_eq_nil in Hchk. destruct Hchk as [Hchk _].
      assert (Hsk : sk m1 0 = SLive).
      { destruct (sk m1 0); cbn in Hchk; try discriminate; reflexivity. }
      assert (Hus : us (ms c) 0 = ULive).
      { unfold link in Hlink. revert Hlink. destruct (us (ms c) 0); intros Hlink; try reflexivity;
          try (match type of Hlink with _ /\ _ => destruct Hlink as [? ?] end); congruence. }
      split.
      + unfold enabled. rewrite Hlive, Hg, Htop, Hus, Hpl. reflexivity.
      + unfold link. cbn. rewrite Hsk. cbn. rewrite ?upd_same; cbn; auto.
  Qed.
End Transfer.

(** ** Which core fields an event can change *)

Definition up0 (cl : call) : Prop := cl = CSub 0 \/ exists u, cl = CUp 0 u.
Definition dn0 (cl : call) : Prop := exists d, cl = CDn 0 d.

Lemma callupd_subd m cl : subd (mon_call_upd m cl) = subd m.
Proof.
  destruct cl as [i|i [| |]|s [|v|e|]]; cbn; try reflexivity.
  - destruct (sk m s); reflexivity.
  - destruct (sk m s), (err_due m s) as [e'|]; try destruct (Nat.eqb e e'); reflexivity.
  - destruct (sk m s); reflexivity.
Qed.

Lemma callupd_refused m cl : refused (mon_call_upd m cl) = refused m.
Proof.
  destruct cl as [i|i [| |]|s [|v|e|]]; cbn; try reflexivity.
  - destruct (sk m s); reflexivity.
  - destruct (sk m s), (err_due m s) as [e'|]; try destruct (Nat.eqb e e'); reflexivity.
  - destruct (sk m s); reflexivity.
Qed.

Lemma callupd_us0 m cl : ~ up0 cl -> us (mon_call_upd m cl) 0 = us m 0.
Proof.
  intros H. destruct cl as [i|i u|s d]; cbn.
  - destruct i; [exfalso; apply H; now left|]. now rewrite upd_other.
  - destruct i; [exfalso; apply H; right; now exists u|].
    destruct u; cbn; try reflexivity; now rewrite upd_other.
  - destruct d as [|v|e|]; cbn; try reflexivity.
    + destruct (sk m s); reflexivity.
    + destruct (sk m s), (err_due m s) as [e'|]; try destruct (Nat.eqb e e'); reflexivity.
    + destruct (sk m s); reflexivity.
Qed.

Lemma callupd_sk0 m cl : ~ dn0 cl -> sk (mon_call_upd m cl) 0 = sk m 0.
Proof.
  intros H. destruct cl as [i|i u|s d]; cbn; try reflexivity.
  - destruct u; reflexivity.
  - destruct s; [exfalso; apply H; now exists d|].
    destruct d as [|v|e|]; cbn; try reflexivity.
    + destruct (sk m (S s)); cbn; try reflexivity; now rewrite upd_other.
    + destruct (sk m (S s)), (err_due m (S s)) as [e'|]; try destruct (Nat.eqb e e'); cbn;
        try reflexivity; now rewrite upd_other.
    + destruct (sk m (S s)); cbn; try reflexivity; now rewrite upd_other.
Qed.

Definition is_dn0 (inp : input) : Prop := exists d, inp = IDn 0 d.
Definition is_sink_input (inp : input) : Prop :=
  match inp with ISub _ _ | IUp _ _ => True | _ => False end.

Lemma input_us0 p m inp : ~ is_dn0 inp -> us (mon_input p m inp) 0 = us m 0.
Proof.
  intros H. destruct inp as [s [|aux]|s [|e|]|i d|s]; cbn; try reflexivity.
  destruct i; [exfalso; apply H; now exists d|].
  destruct d; cbn; try reflexivity; now rewrite upd_other.
Qed.

Lemma input_sk0 p m inp :
  ~ is_sink_input inp -> sk (mon_input p m inp) 0 = sk m 0 /\ subd (mon_input p m inp) 0 = subd m 0.
Proof.
  intros H. destruct inp as [s aux|s u|i d|s]; cbn in H; try (exfalso; exact (H I)).
  - destruct d; cbn; split; reflexivity.
  - cbn. split; reflexivity.
Qed.

Lemma input_subd_mono p m inp : subd m 0 = true -> subd (mon_input p m inp) 0 = true.
Proof.
  intros H. destruct inp as [s [|aux]|s [|e|]|i [|v|e|]|s]; cbn; try exact H;
    unfold upd; destruct (Nat.eqb 0 s); auto.
Qed.

Lemma input_refused p m inp g :
  g m inp = g_std m inp -> g m inp = true -> refused (mon_input p m inp) = refused m.
Proof.
  intros Hg He. rewrite Hg in He.
  destruct inp as [s [|aux]|s [|e|]|i [|v|e|]|s]; cbn in *; try reflexivity; discriminate.
Qed.

(** ** The invariant of a reachable net *)

Section ChainSound.
  Variable sigs : list (op * mparams * (mstate -> input -> bool)).
  Hypothesis Hsafe : forall s, In s sigs -> safe_sig s.

  Definition regime_ok (i : nat) (s : op * mparams * (mstate -> input -> bool)) : Prop :=
    let '(o, p, g) := s in
    nsinks p = 1 /\ resub p = false /\ pullable p = false /\ one_pull p = false /\
    (0 < i -> late_ok p = true) /\ (forall m inp, g m inp = g_std m inp).
  Hypothesis Hreg : forall i s, nth_error sigs i = Some s -> regime_ok i s.

  Definition eff (pd : pending) (i : nat) (n : node) : mstate :=
    match pd with
    | PTo k inp => if k =? i then mon_input (npar n) (nms n) inp else nms n
    | _ => nms n
    end.

  Definition nodes_ok (ns : list node) : Prop :=
    map nsig ns = sigs /\
    forall i n, nth_error ns i = Some n -> nreach n /\ (subd (nms n) 0 = false -> ninit n).

  Definition stacks_ok (ns : list node) (G : list (nat * gkind)) : Prop :=
    forall i n, nth_error ns i = Some n ->
      map (route (length ns) i) (cstack (nms n)) = kinds_of i G.

  Definition links_ok (ns : list node) (pd : pending) : Prop :=
    forall i U D, nth_error ns i = Some U -> nth_error ns (S i) = Some D ->
      link (eff pd i U) (eff pd (S i) D).

  Definition pend_ok (ns : list node) (G : list (nat * gkind)) (pd : pending) : Prop :=
    match pd with
    | PIdle => match G with [] => True | (_, KExt) :: _ => True | _ => False end
    | PTo i inp =>
        (exists j k, hd_error G = Some (j, k) /\ k <> KExt /\ owner_above (j, k) = i) /\
        exists n, nth_error ns i = Some n /\ nenabled n (MIn inp) = true
    | PRet j => exists k, hd_error G = Some (j, k) /\ k <> KExt
    end.

  Definition Inv (N : net) : Prop :=
    nodes_ok (nodes N) /\ stacks_ok (nodes N) (gst N) /\ wfG (length (nodes N)) (gst N) /\
    pend_ok (nodes N) (gst N) (pend N) /\ links_ok (nodes N) (pend N).

  (** what the hypotheses say about one node of a well-formed list *)
  Lemma node_facts ns i n :
    map nsig ns = sigs -> nth_error ns i = Some n ->
    (forall c : cfg (nop n), reach (npar n) (ngrd n) c -> viols (ms c) = [] /\ dead c = false) /\
    nsinks (npar n) = 1 /\ resub (npar n) = false /\ pullable (npar n) = false /\
    one_pull (npar n) = false /\ (0 < i -> late_ok (npar n) = true) /\
    (forall m inp, ngrd n m inp = g_std m inp).
  Proof.
    intros Hs Hn.
    assert (H : nth_error sigs i = Some (nsig n)).
    { rewrite <- Hs. now apply map_nth_error. }
    split.
    - exact (Hsafe (nsig n) (nth_error_In _ _ H)).
    - exact (Hreg i H).
  Qed.

  Lemma nreach_refused n :
    (forall c : cfg (nop n), reach (npar n) (ngrd n) c -> viols (ms c) = [] /\ dead c = false) ->
    (forall m inp, ngrd n m inp = g_std m inp) ->
    nreach n -> forall s, refused (nms n) s = None.
  Proof.
    intros Hs Hg Hr. unfold nreach, nms in *. induction Hr as [|c m Hr IH He]; [reflexivity|].
    destruct (Hs _ (reachS m Hr He)) as [Hv Hd].
    assert (Hin : refused (mon_move (npar n) (ms c) m) = refused (ms c)).
    { destruct m as [inp|]; [|reflexivity].
      apply (@input_refused (npar n) (ms c) inp (ngrd n)); [apply Hg|].
      unfold enabled in He. apply andb_prop in He. destruct He as [_ He].
      apply andb_prop in He. tauto. }
    intros s.
    destruct (step_summary _ _ _ _ He Hv Hd) as [m1 cl H1 _ _ H3|_ H3].
    - destruct H3 as (_ & _ & _ & R & _). destruct H1 as (_ & _ & _ & R1 & _).
      rewrite R. cbn. rewrite callupd_refused, R1, Hin. apply IH.
    - destruct H3 as (_ & _ & _ & R & _). rewrite R, Hin. apply IH.
  Qed.

  (** after an enabled step the node has been subscribed *)
  Lemma subd_after_move n m :
    nsinks (npar n) = 1 ->
    (subd (nms n) 0 = false -> ninit n) ->
    nenabled n m = true ->
    subd (mon_move (npar n) (nms n) m) 0 = true.
  Proof.
    intros Hns Hi He. destruct (subd (nms n) 0) eqn:E.
    - destruct m as [inp|]; [now apply input_subd_mono | exact E].
    - specialize (Hi eq_refl). unfold nenabled in He. unfold ninit in Hi.
      unfold nms. rewrite Hi in *.
      destruct (enabled_cfg0 _ _ _ _ Hns He) as [aux ->]. cbn.
      destruct aux; cbn; rewrite ?upd_same; reflexivity.
  Qed.

  (** the state a step starts from, seen from the neighbours *)
  Definition effx (x : nat) (m : move) (i : nat) (n : node) : mstate :=
    if i =? x then mon_move (npar n) (nms n) m else nms n.

  Lemma top_kind_peer len G i n (want : gkind) q :
    map (route len i) (cstack (nms n)) = kinds_of i G -> nreach n ->
    match kinds_of i G with [] => True | k :: _ => k = want end ->
    (forall cl, route len i cl = want -> peer_of cl = q) ->
    top_peer_is (ncfg n) q = true.
  Proof.
    intros Hst Hr Hk Hq.
    apply top_peer_of_cstack.
    - exact (reach_cstack Hr).
    - unfold nms in Hst.
      destruct (cstack (ms (ncfg n))) as [|cl rest]; [exact I|].
      cbn in Hst. rewrite <- Hst in Hk. apply Hq. exact Hk.
  Qed.

  (** core of the state after a step, from its summary *)
  Lemma sum_core p o (c : cfg o) m :
    step_sum p c m ->
    subd (ms (step p c m)) = subd (mon_move p (ms c) m) /\
    refused (ms (step p c m)) = refused (mon_move p (ms c) m).
  Proof.
    intros [m1 cl (A1 & _ & _ & R1 & _) _ _ (A3 & _ & _ & R3 & _)|_ (A3 & _ & _ & R3 & _)].
    - rewrite A3, R3. cbn. rewrite callupd_subd, callupd_refused. split; congruence.
    - split; assumption.
  Qed.

  Lemma after_step_inv (ns : list node) (G1 : list (nat * gkind)) (pd0 : pending) x n m :
    nodes_ok ns ->
    nth_error ns x = Some n ->
    nenabled n m = true ->
    wfG (length ns) G1 -> runner_ok x G1 ->
    (forall i ni, nth_error ns i = Some ni -> i <> x ->
        map (route (length ns) i) (cstack (nms ni)) = kinds_of i G1) ->
    map (route (length ns) x) (cstack (mon_move (npar n) (nms n) m)) = kinds_of x G1 ->
    (forall i U D, nth_error ns i = Some U -> nth_error ns (S i) = Some D ->
        link (effx x m i U) (effx x m (S i) D)) ->
    Inv (after_step (mk_net ns G1 pd0) x (nstep n m)).
  Proof.
    intros [Hsig Hnodes] Hn He Hwf Hrun Hst Hstx Hlk.
    destruct (@node_facts ns x n Hsig Hn) as (Hsafe_n & Hns & Hrs & Hpl & Hop & Hlate & Hg).
    destruct (Hnodes x n Hn) as [Hr Hinit].
    set (n' := nstep n m).
    assert (Hr' : nreach n') by (unfold nreach, n', nstep; cbn; now apply reachS).
    destruct (Hsafe_n _ Hr') as [Hv Hd].
    pose proof (step_summary _ _ _ _ He Hv Hd) as Hsum.
    pose proof (@subd_after_move n m Hns Hinit He) as Hsubd.
    pose proof (@nreach_refused n Hsafe_n Hg Hr) as Hrf.
    destruct (sum_core Hsum) as [Hsd' Hrf'].
    change (ms (step (npar n) (ncfg n) m)) with (nms n') in Hsd', Hrf'.
    change (ms (ncfg n)) with (nms n) in Hsd', Hrf'.
    set (ns' := set_nth x n' ns).
    assert (Hlen : length ns' = length ns) by apply set_nth_length.
    assert (Hx' : nth_error ns' x = Some n') by (eapply nth_set_same; eauto).
    assert (Ho' : forall j, j <> x -> nth_error ns' j = nth_error ns j)
      by (intros j Hj; apply nth_set_other; congruence).
    assert (Hxlt : x < length ns) by (eapply nth_error_lt; eauto).
    assert (Hnodes' : nodes_ok ns').
    { split.
      - unfold ns'. rewrite (@map_set_nth _ _ nsig x n' n ns Hn); [exact Hsig|reflexivity].
      - intros i ni Hi. destruct (Nat.eq_dec i x) as [->|Hix].
        + rewrite Hx' in Hi. inversion Hi; subst ni. split; [exact Hr'|].
          intros H0. rewrite Hsd', Hsubd in H0. discriminate.
        + rewrite Ho' in Hi by exact Hix. exact (Hnodes i ni Hi). }
    (* the three kinds of pairs *)
    assert (Hpair : forall i U' D', nth_error ns' i = Some U' -> nth_error ns' (S i) = Some D' ->
              (i = x /\ U' = n' /\ nth_error ns (S x) = Some D') \/
              (S i = x /\ D' = n' /\ nth_error ns i = Some U') \/
              (i <> x /\ S i <> x /\ nth_error ns i = Some U' /\ nth_error ns (S i) = Some D')).
    { intros i U' D' HU HD. destruct (Nat.eq_dec i x) as [->|Hix].
      - left. rewrite Hx' in HU. inversion HU. rewrite Ho' in HD by lia. auto.
      - destruct (Nat.eq_dec (S i) x) as [Hsx|Hsx].
        + right. left. rewrite Hsx, Hx' in HD. inversion HD. rewrite Ho' in HU by exact Hix. auto.
        + right. right. rewrite Ho' in HU, HD by assumption. auto. }
    assert (Ex : forall nn, effx x m x nn = mon_move (npar nn) (nms nn) m)
      by (intros nn; unfold effx; now rewrite Nat.eqb_refl).
    assert (Eo : forall j nn, j <> x -> effx x m j nn = nms nn)
      by (intros j nn Hj; unfold effx; destruct (Nat.eqb_spec j x); [contradiction|reflexivity]).
    unfold after_step. cbn [nodes gst]. fold n'. fold ns'.
    destruct Hsum as [m1 cl H1 Hl Hchk H3|Hl H3];
      change (hd_error (rtrace (step (npar n) (ncfg n) m))) with (nlast n') in Hl;
      change (ms (step (npar n) (ncfg n) m)) with (nms n') in H3;
      change (ms (ncfg n)) with (nms n) in *; rewrite Hl.
    - (* the step ended in a call *)
      destruct H1 as (A1 & B1 & C1 & R1 & S1). destruct H3 as (A3 & B3 & C3 & R3 & S3).
      cbn in A3, B3, C3, R3, S3.
      assert (Hcs : cstack (nms n') = cl :: cstack (mon_move (npar n) (nms n) m)) by congruence.
      assert (Hstk : forall K, route (length ns) x cl = K -> stacks_ok ns' ((x, K) :: G1)).
      { intros K EK i ni Hi. rewrite Hlen. destruct (Nat.eq_dec i x) as [->|Hix].
        - rewrite Hx' in Hi. inversion Hi; subst ni. rewrite Hcs. cbn [map].
          rewrite EK, Hstx, kinds_of_cons_same. reflexivity.
        - rewrite Ho' in Hi by exact Hix. rewrite kinds_of_cons_other by congruence.
          now apply Hst. }
      assert (Hwfp : forall K, kind_ok (length ns) (x, K) -> wfG (length ns') ((x, K) :: G1)).
      { intros K HK. rewrite Hlen. cbn. split; [exact HK|]. split; [exact Hwf|].
        destruct G1 as [|e' G1']; [exact I|]. cbn in Hrun. cbn. congruence. }
      (* the core of the new state of node x *)
      assert (Hsk_keep : ~ dn0 cl -> sk (nms n') 0 = sk (mon_move (npar n) (nms n) m) 0).
      { intros H. rewrite B3, (callupd_sk0 m1 H). congruence. }
      assert (Hus_keep : ~ up0 cl -> us (nms n') 0 = us (mon_move (npar n) (nms n) m) 0).
      { intros H. rewrite C3, (callupd_us0 m1 H). congruence. }
      assert (Hsd_keep : subd (nms n') 0 = subd (mon_move (npar n) (nms n) m) 0) by congruence.
      destruct (route (length ns) x cl) eqn:Er; unfold Inv; cbn [nodes gst pend].
      + (* external call *)
        split; [exact Hnodes'|]. split; [now apply Hstk|]. split; [apply Hwfp; exact Hxlt|].
        split; [exact I|].
        intros i U' D' HU HD. cbn [eff].
        destruct (Hpair i U' D' HU HD) as [(-> & -> & HD0)|[(Hsx & -> & HU0)|(Hix & Hsx & HU0 & HD0)]].
        * specialize (Hlk x n D' Hn HD0). rewrite Ex, Eo in Hlk by lia.
          assert (Hnd : ~ dn0 cl).
          { intros [d ->]. unfold route in Er. apply nth_error_lt in HD0.
            apply Nat.ltb_lt in HD0. rewrite HD0 in Er. discriminate. }
          eapply link_ext; [| | reflexivity | exact Hlk]; [exact Hsd_keep | now apply Hsk_keep].
        * specialize (Hlk i U' n HU0). rewrite Hsx in Hlk. specialize (Hlk Hn).
          rewrite Ex, Eo in Hlk by lia.
          assert (Hnu : ~ up0 cl).
          { intros H. assert (0 < x) by lia. apply Nat.ltb_lt in H0. unfold route in Er.
            destruct H as [->|[u ->]]; rewrite H0 in Er; discriminate. }
          eapply link_ext; [reflexivity | reflexivity | | exact Hlk]. now apply Hus_keep.
        * specialize (Hlk i U' D' HU0 HD0). now rewrite !Eo in Hlk by assumption.
      + (* call up into node x-1 *)
        destruct (route_up _ _ _ Er) as [Hup Hx0].
        assert (Hnd : ~ dn0 cl) by (intros [d ->]; destruct Hup as [H|[u H]]; discriminate).
        destruct (nth_error ns (pred x)) as [nu|] eqn:Hnu.
        2: { apply nth_error_None in Hnu. lia. }
        destruct (@node_facts ns (pred x) nu Hsig Hnu) as (Hsafe_u & Hns_u & _ & _ & Hop_u & _ & Hg_u).
        destruct (Hnodes _ _ Hnu) as [Hr_u Hinit_u].
        destruct (Hsafe_u _ Hr_u) as [_ Hd_u].
        assert (Hlk0 : link (nms nu) m1).
        { specialize (Hlk (pred x) nu n Hnu). replace (S (pred x)) with x in Hlk by lia.
          specialize (Hlk Hn). rewrite Ex, Eo in Hlk by lia.
          eapply link_ext; [reflexivity | reflexivity | | exact Hlk]. congruence. }
        assert (Htop : top_peer_is (ncfg nu) (PSink 0) = true).
        { apply (@top_kind_peer (length ns) G1 (pred x) nu KDn).
          - apply Hst; [exact Hnu|lia].
          - exact Hr_u.
          - destruct (@first_kind (length ns) G1 x Hwf Hrun (pred x)) as [Hfk _]. apply Hfk. lia.
          - intros cl0 H0. destruct (route_dn _ _ _ H0) as (d & -> & _). reflexivity. }
        destruct (@xfer_up (npar nu) (nop nu) (ngrd nu) (ncfg nu) Hg_u Hd_u (npar n) m1 cl
                    Hrs Hns_u Hop_u Hup Hchk Hlk0 Hinit_u Htop) as [Hen Hlk1].
        split; [exact Hnodes'|]. split; [now apply Hstk|].
        split; [apply Hwfp; cbn; lia|].
        split.
        { split.
          - exists x, KUp. cbn. repeat split; congruence.
          - exists nu. split; [rewrite Ho' by lia; exact Hnu | exact Hen]. }
        intros i U' D' HU HD. unfold eff.
        destruct (Hpair i U' D' HU HD) as [(-> & -> & HD0)|[(Hsx & -> & HU0)|(Hix & Hsx & HU0 & HD0)]].
        * replace (pred x =? x) with false by (symmetry; apply Nat.eqb_neq; lia).
          replace (pred x =? S x) with false by (symmetry; apply Nat.eqb_neq; lia).
          specialize (Hlk x n D' Hn HD0). rewrite Ex, Eo in Hlk by lia.
          eapply link_ext; [| | reflexivity | exact Hlk]; [exact Hsd_keep | now apply Hsk_keep].
        * assert (i = pred x) by lia. subst i.
          rewrite Nat.eqb_refl. replace (pred x =? S (pred x)) with false
            by (symmetry; apply Nat.eqb_neq; lia).
          assert (U' = nu) by congruence. subst U'.
          eapply link_ext; [reflexivity | reflexivity | | exact Hlk1]. congruence.
        * specialize (Hlk i U' D' HU0 HD0). rewrite !Eo in Hlk by assumption.
          replace (pred x =? i) with false by (symmetry; apply Nat.eqb_neq; lia).
          destruct (Nat.eqb_spec (pred x) (S i)) as [E|E]; [|exact Hlk].
          eapply link_ext; [reflexivity | reflexivity | | exact Hlk].
          apply input_us0. intros [d Hd0]. destruct Hup as [->|[u ->]]; discriminate.
      + (* call down into node x+1 *)
        destruct (route_dn _ _ _ Er) as (d & -> & Hsx).
        assert (Hnu0 : ~ up0 (CDn 0 d)) by (intros [H|[u H]]; discriminate).
        destruct (nth_error ns (S x)) as [nd|] eqn:Hnd.
        2: { apply nth_error_None in Hnd. lia. }
        destruct (@node_facts ns (S x) nd Hsig Hnd) as (Hsafe_d & _ & _ & Hpl_d & _ & Hlate_d & Hg_d).
        destruct (Hnodes _ _ Hnd) as [Hr_d _].
        destruct (Hsafe_d _ Hr_d) as [_ Hd_d].
        assert (Hlk0 : link m1 (nms nd)).
        { specialize (Hlk x n nd Hn Hnd). rewrite Ex, Eo in Hlk by lia.
          eapply link_ext; [| | reflexivity | exact Hlk]; congruence. }
        assert (Htop : top_peer_is (ncfg nd) (PUp 0) = true).
        { apply (@top_kind_peer (length ns) G1 (S x) nd KUp).
          - apply Hst; [exact Hnd|lia].
          - exact Hr_d.
          - destruct (@first_kind (length ns) G1 x Hwf Hrun (S x)) as [_ Hfk]. apply Hfk. lia.
          - intros cl0 H0. destruct (route_up _ _ _ H0) as [[->|[u ->]] _]; reflexivity. }
        assert (Hsd1 : subd m1 0 = true) by congruence.
        assert (Hrf1 : refused m1 0 = None).
        { rewrite R1. destruct m as [inp|]; cbn [mon_move mon_event]; [|apply Hrf].
          rewrite (@input_refused (npar n) (nms n) inp (ngrd n)); [apply Hrf|apply Hg|].
          unfold nenabled, enabled in He. apply andb_prop in He. destruct He as [_ He].
          apply andb_prop in He. tauto. }
        destruct (@xfer_dn (npar nd) (nop nd) (ngrd nd) (ncfg nd) Hg_d Hd_d (npar n) m1 d
                    (Hlate_d ltac:(lia)) Hpl_d Hchk Hlk0 Hsd1 Hrf1 Htop) as [Hen Hlk1].
        split; [exact Hnodes'|]. split; [now apply Hstk|].
        split; [apply Hwfp; cbn; lia|].
        split.
        { split.
          - exists x, KDn. cbn. repeat split; congruence.
          - exists nd. split; [rewrite Ho' by lia; exact Hnd | exact Hen]. }
        intros i U' D' HU HD. unfold eff. cbn [xlate].
        destruct (Hpair i U' D' HU HD) as [(-> & -> & HD0)|[(Hsx' & -> & HU0)|(Hix & Hsx' & HU0 & HD0)]].
        * replace (S x =? x) with false by (symmetry; apply Nat.eqb_neq; lia).
          rewrite Nat.eqb_refl. assert (D' = nd) by congruence. subst D'.
          eapply link_ext; [| | reflexivity | exact Hlk1]; congruence.
        * replace (S x =? i) with false by (symmetry; apply Nat.eqb_neq; lia).
          replace (S x =? S i) with false by (symmetry; apply Nat.eqb_neq; lia).
          specialize (Hlk i U' n HU0). rewrite Hsx' in Hlk. specialize (Hlk Hn).
          rewrite Ex, Eo in Hlk by lia.
          eapply link_ext; [reflexivity | reflexivity | | exact Hlk]. now apply Hus_keep.
        * specialize (Hlk i U' D' HU0 HD0). rewrite !Eo in Hlk by assumption.
          replace (S x =? S i) with false by (symmetry; apply Nat.eqb_neq; lia).
          destruct (Nat.eqb_spec (S x) i) as [E|E]; [|exact Hlk].
          destruct (@input_sk0 (npar U') (nms U') (IDn 0 d)) as [Ha Hb]; [intros H; exact H|].
          eapply link_ext; [exact Hb | exact Ha | reflexivity | exact Hlk].
    - (* the step ended with a return *)
      destruct H3 as (A3 & B3 & C3 & R3 & S3).
      assert (Hstk : stacks_ok ns' G1).
      { intros i ni Hi. rewrite Hlen. destruct (Nat.eq_dec i x) as [->|Hix].
        - rewrite Hx' in Hi. inversion Hi; subst ni. rewrite S3. exact Hstx.
        - rewrite Ho' in Hi by exact Hix. now apply Hst. }
      assert (Hlinks : forall pd, (forall j nn, eff pd j nn = nms nn) -> links_ok ns' pd).
      { intros pd Hpd i U' D' HU HD. rewrite !Hpd.
        destruct (Hpair i U' D' HU HD) as [(-> & -> & HD0)|[(Hsx & -> & HU0)|(Hix & Hsx & HU0 & HD0)]].
        - specialize (Hlk x n D' Hn HD0). rewrite Ex, Eo in Hlk by lia.
          eapply link_ext; [| | reflexivity | exact Hlk]; congruence.
        - specialize (Hlk i U' n HU0). rewrite Hsx in Hlk. specialize (Hlk Hn).
          rewrite Ex, Eo in Hlk by lia.
          eapply link_ext; [reflexivity | reflexivity | | exact Hlk]. congruence.
        - specialize (Hlk i U' D' HU0 HD0). now rewrite !Eo in Hlk by assumption. }
      rewrite <- Hlen in Hwf.
      destruct G1 as [|[j [| |]] G1']; unfold Inv; cbn [nodes gst pend].
      + split; [exact Hnodes'|]. split; [exact Hstk|]. split; [exact Hwf|].
        split; [exact I|]. now apply Hlinks.
      + split; [exact Hnodes'|]. split; [exact Hstk|]. split; [exact Hwf|].
        split; [exact I|]. now apply Hlinks.
      + split; [exact Hnodes'|]. split; [exact Hstk|]. split; [exact Hwf|].
        split; [exists KUp; split; [reflexivity|discriminate]|]. now apply Hlinks.
      + split; [exact Hnodes'|]. split; [exact Hstk|]. split; [exact Hwf|].
        split; [exists KDn; split; [reflexivity|discriminate]|]. now apply Hlinks.
  Qed.

  (** ** Every net step preserves the invariant *)

  Lemma ret_prep ns G' x K n :
    stacks_ok ns ((x, K) :: G') -> nth_error ns x = Some n ->
    (forall i ni, nth_error ns i = Some ni -> i <> x ->
        map (route (length ns) i) (cstack (nms ni)) = kinds_of i G') /\
    map (route (length ns) x) (cstack (mon_move (npar n) (nms n) MRet)) = kinds_of x G' /\
    exists cl rest, cstack (nms n) = cl :: rest /\ route (length ns) x cl = K.
  Proof.
    intros Hst Hn. split; [|split].
    - intros i ni Hi Hix. rewrite (Hst i ni Hi). apply kinds_of_cons_other. congruence.
    - specialize (Hst x n Hn). rewrite kinds_of_cons_same in Hst. cbn.
      destruct (cstack (nms n)) as [|cl rest]; [discriminate|]. cbn in *. congruence.
    - specialize (Hst x n Hn). rewrite kinds_of_cons_same in Hst.
      destruct (cstack (nms n)) as [|cl rest]; [discriminate|]. cbn in Hst.
      exists cl, rest. split; [reflexivity|congruence].
  Qed.

  Lemma links_core_move ns pd x m :
    links_ok ns pd -> (forall j nn, eff pd j nn = nms nn) ->
    (forall n, nth_error ns x = Some n ->
       (forall D, nth_error ns (S x) = Some D ->
          subd (mon_move (npar n) (nms n) m) 0 = subd (nms n) 0 /\
          sk (mon_move (npar n) (nms n) m) 0 = sk (nms n) 0) /\
       (0 < x -> us (mon_move (npar n) (nms n) m) 0 = us (nms n) 0)) ->
    forall i U D, nth_error ns i = Some U -> nth_error ns (S i) = Some D ->
      link (effx x m i U) (effx x m (S i) D).
  Proof.
    intros Hlk Hpd Hcore i U D HU HD. specialize (Hlk i U D HU HD). rewrite !Hpd in Hlk.
    unfold effx. destruct (Nat.eqb_spec i x) as [->|Hix].
    - replace (S x =? x) with false by (symmetry; apply Nat.eqb_neq; lia).
      destruct (Hcore U HU) as [H1 _]. destruct (H1 D HD) as [Ha Hb].
      eapply link_ext; [exact Ha | exact Hb | reflexivity | exact Hlk].
    - destruct (Nat.eqb_spec (S i) x) as [Hsx|Hsx]; [|exact Hlk].
      rewrite Hsx in HD. destruct (Hcore D HD) as [_ H2].
      eapply link_ext; [reflexivity | reflexivity | apply H2; lia | exact Hlk].
  Qed.

  Lemma ret_enabled ns G' j k n :
    nodes_ok ns -> stacks_ok ns ((j, k) :: G') -> k <> KExt -> nth_error ns j = Some n ->
    nenabled n MRet = true.
  Proof.
    intros [Hsig Hnd] Hst Hk Hn.
    destruct (ret_prep Hst Hn) as (_ & _ & cl & rest & Hcs & Hrt).
    destruct (Hnd j n Hn) as [Hr _].
    destruct (@node_facts ns j n Hsig Hn) as (Hsafe_n & _ & _ & _ & _ & Hlate & _).
    destruct (Hsafe_n _ Hr) as [_ Hd].
    unfold nenabled, enabled. rewrite Hd. cbn [negb andb].
    pose proof (reach_cstack Hr) as Hc. change (ms (ncfg n)) with (nms n) in Hc.
    rewrite Hcs in Hc. destruct (stack (ncfg n)) as [|[f c0] st']; [discriminate|].
    cbn in Hc. inversion Hc; subst c0.
    destruct cl as [i0|i0 u0|s0 d0]; try reflexivity.
    destruct k; [congruence| |].
    - destruct (route_up _ _ _ Hrt) as [_ Hj0]. rewrite (Hlate Hj0). reflexivity.
    - destruct (route_dn _ _ _ Hrt) as (d & Hc0 & _). discriminate.
  Qed.

  Lemma net_step_inv N mv : Inv N -> net_enabled N mv = true -> Inv (net_step N mv).
  Proof.
    destruct N as [ns G pd]. intros (Hnodes & Hst & Hwf & Hpend & Hlk) He.
    cbn [nodes gst pend] in *. unfold net_enabled, net_step in *. cbn [nodes gst pend] in *.
    destruct mv as [x m|]; destruct pd as [|t inp|j]; try discriminate.
    - (* the environment acts on node x *)
      destruct (nth_error ns x) as [n|] eqn:Hn; [|discriminate].
      apply andb_prop in He. destruct He as [Hen He].
      destruct m as [inp|].
      + apply andb_prop in He. destruct He as [Hext HG].
        apply after_step_inv; [exact Hnodes | exact Hn | exact Hen | exact Hwf | | | |].
        * destruct G as [|[j [| |]] G']; try discriminate; [exact I|].
          apply Nat.eqb_eq in HG. cbn. exact HG.
        * intros i ni Hi _. now apply Hst.
        * cbn [mon_move]. rewrite mon_input_cstack. now apply Hst.
        * apply (links_core_move (pd := PIdle)); [exact Hlk | reflexivity|].
          intros n0 Hn0. assert (n0 = n) by congruence. subst n0. cbn [mon_move]. split.
          -- intros D HD. apply nth_error_lt in HD.
             destruct (@input_sk0 (npar n) (nms n) inp) as [Ha Hb]; [|split; assumption].
             intros Hs. destruct inp as [s0 aux|s0 u|i0 d|s0]; cbn in Hs; try contradiction;
               unfold ext_input_ok in Hext; apply Nat.eqb_eq in Hext; lia.
          -- intros Hx0. apply input_us0. intros [d ->]. unfold ext_input_ok in Hext.
             apply Nat.eqb_eq in Hext. lia.
      + destruct G as [|[j [| |]] G']; try discriminate.
        apply Nat.eqb_eq in He. subst j.
        destruct (wfG_tl Hwf) as [Hwf' Hrun']. cbn [fst] in Hrun'.
        destruct (ret_prep Hst Hn) as (Hs1 & Hs2 & _).
        apply after_step_inv; [exact Hnodes | exact Hn | exact Hen | exact Hwf' | exact Hrun' | exact Hs1 | exact Hs2 |].
        apply (links_core_move (pd := PIdle)); [exact Hlk | reflexivity|].
        intros n0 Hn0. assert (n0 = n) by congruence. subst n0. cbn. auto.
    - (* the pending internal transfer into node t *)
      destruct Hpend as [(j & k & Hhd & Hk & Hown) (n & Hn & Hen)].
      rewrite Hn.
      apply after_step_inv; [exact Hnodes | exact Hn | exact Hen | exact Hwf | | | |].
      + destruct G as [|e G']; [discriminate|]. cbn in Hhd. inversion Hhd; subst e. exact Hown.
      + intros i ni Hi _. now apply Hst.
      + cbn [mon_move]. rewrite mon_input_cstack. now apply Hst.
      + intros i U D HU HD. specialize (Hlk i U D HU HD). unfold eff in Hlk. unfold effx.
        cbn [mon_move]. rewrite (Nat.eqb_sym i t), (Nat.eqb_sym (S i) t). exact Hlk.
    - (* the return to node j *)
      destruct Hpend as (k & Hhd & Hk).
      destruct G as [|e G']; [discriminate|]. cbn in Hhd. inversion Hhd; subst e.
      destruct (wfG_tl Hwf) as [Hwf' Hrun']. cbn [fst] in Hrun'.
      assert (Hj : j < length ns).
      { destruct Hwf as (Hko & _). destruct k; cbn in Hko; lia. }
      destruct (nth_error ns j) as [n|] eqn:Hn.
      2: { apply nth_error_None in Hn. lia. }
      destruct (ret_prep Hst Hn) as (Hs1 & Hs2 & _).
      pose proof (ret_enabled Hnodes Hst Hk Hn) as Hen.
      apply after_step_inv; [exact Hnodes | exact Hn | exact Hen | exact Hwf' | exact Hrun' | exact Hs1 | exact Hs2 |].
      apply (links_core_move (pd := PRet j)); [exact Hlk | reflexivity|].
      intros n0 Hn0. assert (n0 = n) by congruence. subst n0. cbn. auto.
  Qed.

  (** ** The composition theorem *)

  Definition net0 (ns : list node) : net := mk_net ns [] PIdle.

  Lemma inv0 ns :
    map nsig ns = sigs -> (forall n, In n ns -> ninit n) -> Inv (net0 ns).
  Proof.
    intros Hsig Hinit. unfold Inv, net0. cbn [nodes gst pend].
    assert (Hms : forall i n, nth_error ns i = Some n -> nms n = ms0).
    { intros i n Hn. unfold nms. rewrite (Hinit n (nth_error_In _ _ Hn)). reflexivity. }
    split; [split; [exact Hsig|]|].
    - intros i n Hn. split.
      + unfold nreach. rewrite (Hinit n (nth_error_In _ _ Hn)). constructor.
      + intros _. exact (Hinit n (nth_error_In _ _ Hn)).
    - split; [|split; [exact I|split; [exact I|]]].
      + intros i n Hn. rewrite (Hms i n Hn). reflexivity.
      + intros i U D HU HD. cbn [eff]. rewrite (Hms _ _ HU), (Hms _ _ HD). reflexivity.
  Qed.

  Theorem chain_inv ns N :
    map nsig ns = sigs -> (forall n, In n ns -> ninit n) ->
    net_reach (net0 ns) N -> Inv N.
  Proof.
    intros Hsig Hinit Hr. induction Hr as [|N mv Hr IH He]; [now apply inv0|].
    now apply net_step_inv.
  Qed.

  (** every node of every reachable net is reachable in its own conformant environment; so
      every theorem about the component holds of it *)
  Theorem chain_sound ns N :
    map nsig ns = sigs -> (forall n, In n ns -> ninit n) ->
    net_reach (net0 ns) N ->
    forall i n, nth_error (nodes N) i = Some n ->
      nsig n = nth i sigs (nsig n) /\ nreach n /\ viols (nms n) = [] /\ dead (ncfg n) = false.
  Proof.
    intros Hsig Hinit Hr i n Hn.
    destruct (chain_inv Hsig Hinit Hr) as ([Hs Hnd] & _).
    destruct (Hnd i n Hn) as [Hre _].
    destruct (@node_facts (nodes N) i n Hs Hn) as (Hsafe_n & _).
    split; [|split; [exact Hre | exact (Hsafe_n _ Hre)]].
    rewrite <- Hs. symmetry. apply nth_error_nth. now apply map_nth_error.
  Qed.
End ChainSound.

Print Assumptions chain_sound.

(** ** The wires carry data unchanged: what a node receives on port 0 is what its upstream
       neighbour sent to its sink, in order (one datum may be in flight) *)

Section OneNodeTrace.
  Variable p : mparams.
  Variable o : op.
  Variable g : mstate -> input -> bool.

  Definition move_event (m : move) : event := match m with MIn i => EIn i | MRet => ERet end.

  Lemma step_trace_shape (c : cfg o) m :
    enabled p g c m = true ->
    exists os fin, trace (step p c m) = trace c ++ move_event m :: map EObs os ++ [fin] /\
                   hd_error (rtrace (step p c m)) = Some fin /\ (forall i, fin <> EIn i).
  Proof.
    intros He. pose proof (enabled_live _ _ _ _ He) as Hlive.
    destruct m as [i|].
    - pose proof (enabled_deliverable _ _ _ _ He) as Hdel.
      destruct (handle o i (cst c)) as [[s' os] a] eqn:Hh.
      exists os, (act_event o a). split; [|split].
      + exact (step_in_trace p c i Hlive Hdel Hh).
      + rewrite (step_in_rtrace p c i Hlive Hdel Hh). reflexivity.
      + intros j. destruct a; discriminate.
    - destruct (enabled_ret_stack _ _ _ He) as (k & cl & rest & Hst).
      destruct (resume o k (cst c)) as [[s' os] a] eqn:Hh.
      exists os, (act_event o a). split; [|split].
      + exact (step_ret_trace p c Hlive Hst Hh).
      + rewrite (step_ret_rtrace p c Hlive Hst Hh). reflexivity.
      + intros j. destruct a; discriminate.
  Qed.
End OneNodeTrace.

Lemma data_out_obs s os : data_out s (map EObs os) = [].
Proof. induction os as [|ob os IH]; cbn; auto. Qed.
Lemma data_in_obs i os : data_in i (map EObs os) = [].
Proof. induction os as [|ob os IH]; cbn; auto. Qed.

Definition out_of (fin : event) : list val :=
  match fin with ECall (CDn 0 (DD v)) => [v] | _ => [] end.
Definition in_of (m : move) : list val :=
  match m with MIn (IDn 0 (DD v)) => [v] | _ => [] end.

Lemma data_out_ext tr m os fin :
  data_out 0 (tr ++ move_event m :: map EObs os ++ [fin]) = data_out 0 tr ++ out_of fin.
Proof.
  rewrite data_out_app. f_equal.
  change (move_event m :: map EObs os ++ [fin]) with ([move_event m] ++ map EObs os ++ [fin]).
  rewrite !data_out_app, data_out_obs.
  assert (E : data_out 0 [move_event m] = []) by (destruct m as [[]|]; reflexivity).
  rewrite E. cbn [app].
  destruct fin as [| [ | |[|s] [|v| |]] | | | |]; reflexivity.
Qed.

Lemma data_in_ext tr m os fin :
  (forall i, fin <> EIn i) ->
  data_in 0 (tr ++ move_event m :: map EObs os ++ [fin]) = data_in 0 tr ++ in_of m.
Proof.
  intros Hfin.
  rewrite data_in_app. f_equal.
  change (move_event m :: map EObs os ++ [fin]) with ([move_event m] ++ map EObs os ++ [fin]).
  rewrite !data_in_app, data_in_obs.
  assert (E : data_in 0 [fin] = []).
  { destruct fin as [j| | | | |]; try reflexivity. exfalso. exact (Hfin j eq_refl). }
  rewrite E, !app_nil_r.
  destruct m as [[s a|s u|[|i] [|v| |]|s]|]; reflexivity.
Qed.

Definition inflight (pd : pending) (t : nat) : list val :=
  match pd with
  | PTo k (IDn 0 (DD v)) => if k =? t then [v] else []
  | _ => []
  end.

Definition ntrace (n : node) : list event := trace (ncfg n).

Definition wire_ok (ns : list node) (pd : pending) : Prop :=
  forall i U D, nth_error ns i = Some U -> nth_error ns (S i) = Some D ->
    data_out 0 (ntrace U) = data_in 0 (ntrace D) ++ inflight pd (S i).

Lemma after_step_wire (ns : list node) G1 pd_old pd0 x n m :
  nth_error ns x = Some n ->
  nenabled n m = true ->
  wire_ok ns pd_old ->
  (forall t, t <> x -> inflight pd_old t = []) ->
  (0 < x -> inflight pd_old x = in_of m) ->
  let N' := after_step (mk_net ns G1 pd0) x (nstep n m) in
  wire_ok (nodes N') (pend N').
Proof.
  intros Hn He Hw Hoth Hx N'.
  destruct (step_trace_shape _ _ _ _ He) as (os & fin & Htr & Hl & Hfin).
  set (n' := nstep n m) in *.
  change (trace (step (npar n) (ncfg n) m)) with (ntrace n') in Htr.
  change (trace (ncfg n)) with (ntrace n) in Htr.
  change (hd_error (rtrace (step (npar n) (ncfg n) m))) with (nlast n') in Hl.
  assert (Hout : data_out 0 (ntrace n') = data_out 0 (ntrace n) ++ out_of fin)
    by (rewrite Htr; apply data_out_ext).
  assert (Hin : data_in 0 (ntrace n') = data_in 0 (ntrace n) ++ in_of m)
    by (rewrite Htr; apply data_in_ext; exact Hfin).
  set (ns' := set_nth x n' ns).
  assert (Hx' : nth_error ns' x = Some n') by (eapply nth_set_same; eauto).
  assert (Ho' : forall j, j <> x -> nth_error ns' j = nth_error ns j)
    by (intros j Hj; apply nth_set_other; congruence).
  (* the new pending transfer and its in-flight datum *)
  assert (Hnodes : nodes N' = ns').
  { unfold N', after_step. cbn [nodes gst]. fold n'. fold ns'. rewrite Hl.
    destruct fin as [|cl| | | |]; try reflexivity.
    - destruct (route (length ns) x cl); reflexivity.
    - destruct G1 as [|[j [| |]] G1']; reflexivity. }
  assert (Hinf : forall t, inflight (pend N') t =
                           if (t =? S x) && (S x <? length ns) then out_of fin else []).
  { intros t. unfold N', after_step. cbn [nodes gst]. fold n'. rewrite Hl.
    destruct fin as [|cl| | | |]; cbn [pend inflight out_of];
      try (destruct ((t =? S x) && (S x <? length ns)); reflexivity).
    - destruct cl as [[|j]|[|j] u|[|s] d]; unfold route;
        try (destruct (0 <? x)); cbn [pend inflight out_of xlate];
        try (destruct ((t =? S x) && (S x <? length ns)); reflexivity).
      all: destruct (S x <? length ns) eqn:E; cbn [pend inflight xlate];
        [ rewrite andb_true_r, (Nat.eqb_sym t (S x)); destruct d as [|v| |]; cbn [out_of];
          try (destruct (S x =? t); reflexivity); reflexivity
        | rewrite andb_false_r; reflexivity ].
    - destruct G1 as [|[j [| |]] G1']; cbn [pend inflight];
        destruct ((t =? S x) && (S x <? length ns)); reflexivity. }
  rewrite Hnodes. intros i U' D' HU HD. rewrite Hinf.
  destruct (Nat.eq_dec i x) as [->|Hix].
  - (* the upstream side of the pair stepped *)
    rewrite Hx' in HU. inversion HU; subst U'. rewrite Ho' in HD by lia.
    rewrite Nat.eqb_refl. apply nth_error_lt in HD as Hlt. apply Nat.ltb_lt in Hlt.
    rewrite Hlt. cbn [andb]. rewrite Hout, (Hw x n D' Hn HD), (Hoth (S x)) by lia.
    now rewrite app_nil_r.
  - destruct (Nat.eq_dec (S i) x) as [Hsx|Hsx].
    + (* the downstream side stepped *)
      rewrite Hsx, Hx' in HD. inversion HD; subst D'. rewrite Ho' in HU by exact Hix.
      replace (S i =? S x) with false by (symmetry; apply Nat.eqb_neq; lia). cbn [andb].
      rewrite app_nil_r, Hin. specialize (Hw i U' n HU). rewrite Hsx in Hw.
      rewrite (Hw Hn), Hx by lia. reflexivity.
    + rewrite Ho' in HU, HD by assumption.
      replace (S i =? S x) with false by (symmetry; apply Nat.eqb_neq; lia). cbn [andb].
      rewrite (Hw i U' D' HU HD), (Hoth (S i)) by exact Hsx. reflexivity.
Qed.

Section ChainWire.
  Variable sigs : list (op * mparams * (mstate -> input -> bool)).
  Hypothesis Hsafe : forall s, In s sigs -> safe_sig s.
  Hypothesis Hreg : forall i s, nth_error sigs i = Some s -> regime_ok i s.

  Lemma net_step_wire N mv :
    Inv sigs N -> net_enabled N mv = true ->
    wire_ok (nodes N) (pend N) -> wire_ok (nodes (net_step N mv)) (pend (net_step N mv)).
  Proof.
    destruct N as [ns G pd]. intros (Hnodes & Hst & Hwf & Hpend & Hlk) He Hw.
    cbn [nodes gst pend] in *. unfold net_enabled, net_step in *. cbn [nodes gst pend] in *.
    destruct mv as [x m|]; destruct pd as [|t inp|j]; try discriminate.
    - destruct (nth_error ns x) as [n|] eqn:Hn; [|discriminate].
      apply andb_prop in He. destruct He as [Hen He].
      destruct m as [inp|].
      + apply andb_prop in He. destruct He as [Hext _].
        apply (@after_step_wire ns G PIdle PIdle x n (MIn inp)); auto.
        intros Hx0. cbn. destruct inp as [s a|s u|[|i] [|v| |]|s]; try reflexivity.
        unfold ext_input_ok in Hext. apply Nat.eqb_eq in Hext. lia.
      + apply (@after_step_wire ns (tl G) PIdle PIdle x n MRet); auto.
    - destruct Hpend as [_ (n & Hn & Hen)]. rewrite Hn.
      apply (@after_step_wire ns G (PTo t inp) (PTo t inp) t n (MIn inp)); auto.
      + intros t' Ht. cbn. destruct inp as [s a|s u|[|i] [|v| |]|s]; try reflexivity.
        destruct (Nat.eqb_spec t t'); [congruence|reflexivity].
      + intros _. cbn. destruct inp as [s a|s u|[|i] [|v| |]|s]; try reflexivity.
        now rewrite Nat.eqb_refl.
    - destruct Hpend as (k & Hhd & Hk).
      destruct G as [|e G']; [discriminate|]. cbn in Hhd. inversion Hhd; subst e.
      assert (Hj : j < length ns).
      { destruct Hwf as (Hko & _). destruct k; cbn in Hko; lia. }
      destruct (nth_error ns j) as [n|] eqn:Hn.
      2: { apply nth_error_None in Hn. lia. }
      pose proof (ret_enabled Hsafe Hreg Hnodes Hst Hk Hn) as Hen.
      apply (@after_step_wire ns G' (PRet j) PIdle j n MRet); auto.
  Qed.

  Theorem chain_wire ns N :
    map nsig ns = sigs -> (forall n, In n ns -> ninit n) ->
    net_reach (net0 ns) N -> wire_ok (nodes N) (pend N).
  Proof.
    intros Hsig Hinit Hr. induction Hr as [|N mv Hr IH He].
    - intros i U D HU HD. unfold net0 in *. cbn [nodes pend inflight] in *.
      unfold ntrace. rewrite (Hinit U (nth_error_In _ _ HU)), (Hinit D (nth_error_In _ _ HD)).
      reflexivity.
    - apply net_step_wire; [|exact He|exact IH].
      exact (chain_inv Hsafe Hreg Hsig Hinit Hr).
  Qed.
End ChainWire.

Print Assumptions chain_wire.
