(** * FlowLists: list lemmas for the liveness theorem (task T13).
    Pure list reasoning: the prefix order, monotonicity of the stage list functions [usem1]/[usem]
    for it, and two facts about a finite iterator [fun k => nth_error xs k]. *)

From Coq Require Import List Arith Lia.
From CB Require Import Base Spec Programs.
Import ListNotations.

Set Implicit Arguments.

Definition prefix (A : Type) (l m : list A) : Prop := exists r, m = l ++ r.
Arguments prefix {A} l m.

Section Prefix.
  Variable A : Type.
  Implicit Types l m k : list A.

  Lemma prefix_refl l : prefix l l.
  Proof. exists []. now rewrite app_nil_r. Qed.

  Lemma prefix_trans l m k : prefix l m -> prefix m k -> prefix l k.
  Proof. intros [r1 ->] [r2 ->]. exists (r1 ++ r2). now rewrite app_assoc. Qed.

  Lemma prefix_length l m : prefix l m -> length l <= length m.
  Proof. intros [r ->]. rewrite app_length. lia. Qed.

  Lemma prefix_app_r l r : prefix l (l ++ r).
  Proof. now exists r. Qed.

  Lemma prefix_firstn n l : prefix (firstn n l) l.
  Proof. exists (skipn n l). now rewrite firstn_skipn. Qed.

  Lemma prefix_filter (c : A -> bool) l m : prefix l m -> prefix (filter c l) (filter c m).
  Proof. intros [r ->]. exists (filter c r). apply filter_app. Qed.

  Lemma prefix_firstn_mono n l m : prefix l m -> prefix (firstn n l) (firstn n m).
  Proof.
    intros [r ->]. rewrite firstn_app. apply prefix_app_r.
  Qed.

  Lemma prefix_skipn n l m : prefix l m -> prefix (skipn n l) (skipn n m).
  Proof.
    intros [r ->]. rewrite skipn_app. apply prefix_app_r.
  Qed.

  Lemma firstn_full_prefix n l m :
    prefix l m -> length (firstn n l) = n -> firstn n l = firstn n m.
  Proof.
    intros [r ->] Hlen. rewrite firstn_app.
    rewrite firstn_length in Hlen.
    replace (n - length l) with 0 by lia.
    cbn. now rewrite app_nil_r.
  Qed.
End Prefix.

Lemma prefix_map (A B : Type) (f : A -> B) (l m : list A) :
  prefix l m -> prefix (map f l) (map f m).
Proof. intros [r ->]. exists (map f r). apply map_app. Qed.

Lemma prefix_scan_list r a (l m : list val) :
  prefix l m -> prefix (scan_list r a l) (scan_list r a m).
Proof. intros [t ->]. rewrite scan_list_app. apply prefix_app_r. Qed.

Lemma usem1_prefix s (l m : list val) : prefix l m -> prefix (usem1 s l) (usem1 s m).
Proof.
  intros H. destruct s as [f|c|r seed|n|n]; cbn.
  - now apply prefix_map.
  - now apply prefix_filter.
  - now apply prefix_scan_list.
  - now apply prefix_firstn_mono.
  - now apply prefix_skipn.
Qed.

Lemma usem_prefix st (l m : list val) : prefix l m -> prefix (usem st l) (usem st m).
Proof.
  revert l m. induction st as [|s st IH]; intros l m H.
  - exact H.
  - cbn. apply IH. now apply usem1_prefix.
Qed.

Lemma scan_list_length r a (l : list val) : length (scan_list r a l) = length l.
Proof. revert a. induction l as [|x l IH]; intros a; cbn; [reflexivity|]. now rewrite IH. Qed.

Lemma filter_length_le' (A : Type) (c : A -> bool) (l : list A) :
  length (filter c l) <= length l.
Proof. induction l as [|x l IH]; cbn; [lia|]. destruct (c x); cbn; lia. Qed.

Lemma usem1_length s (l : list val) : length (usem1 s l) <= length l.
Proof.
  destruct s as [f|c|r seed|n|n]; cbn.
  - rewrite map_length. lia.
  - apply filter_length_le'.
  - rewrite scan_list_length. lia.
  - rewrite firstn_length. lia.
  - rewrite skipn_length. lia.
Qed.

Lemma usem_length st (l : list val) : length (usem st l) <= length l.
Proof.
  revert l. induction st as [|s st IH]; intros l.
  - cbn. lia.
  - cbn. etransitivity; [apply IH|apply usem1_length].
Qed.

Print Assumptions usem_prefix.
Print Assumptions usem_length.
Print Assumptions firstn_full_prefix.

(** ** A finite iterator [fun k => nth_error xs k] *)

Definition is_some_r (A : Type) (r : option A) : bool :=
  match r with Some _ => true | None => false end.

(** the first [pos] results of next(): the first [pos] items, then [None]s *)
Lemma finite_it_shape (A : Type) (xs : list A) pos :
  map (fun k => nth_error xs k) (seq 0 pos)
  = map Some (firstn pos xs) ++ repeat None (pos - length xs).
Proof.
  revert pos. induction xs as [|x xs IH]; intros pos.
  - rewrite firstn_nil. cbn [map app length]. rewrite Nat.sub_0_r.
    generalize 0 as a. induction pos as [|pos IHp]; intros a; cbn; [reflexivity|].
    rewrite IHp. now destruct a.
  - destruct pos as [|pos]; [reflexivity|].
    cbn [seq map firstn length nth_error app Nat.sub].
    rewrite <- seq_shift, map_map. cbn [nth_error].
    now rewrite IH.
Qed.

Lemma filter_some_shape (A : Type) (a : list A) k :
  filter (fun r => match r with Some _ => true | None => false end)
         (map Some a ++ repeat None k) = map Some a.
Proof.
  rewrite filter_app.
  assert (E1 : forall a : list A,
             filter (fun r => match r with Some _ => true | None => false end) (map Some a)
             = map Some a).
  { intros a0; induction a0 as [|y a0 IHa]; cbn; [reflexivity|now rewrite IHa]. }
  assert (E2 : filter (fun r : option A => match r with Some _ => true | None => false end)
                      (repeat None k) = []).
  { induction k as [|k IHk]; cbn; [reflexivity|exact IHk]. }
  now rewrite E1, E2, app_nil_r.
Qed.

Lemma map_Some_inj (A : Type) (a b : list A) : map Some a = map Some b -> a = b.
Proof.
  revert b. induction a as [|x a IH]; intros [|y b] H; cbn in H; try discriminate; [reflexivity|].
  injection H as -> H. f_equal. now apply IH.
Qed.

Lemma some_none_split (A : Type) (a l : list A) k :
  map Some a ++ repeat None k = map Some l ++ [None] -> a = l /\ k = 1.
Proof.
  revert l. induction a as [|x a IH]; intros [|y l] H; cbn in H.
  - destruct k as [|[|k]]; cbn in H; try discriminate. now split.
  - destruct k; cbn in H; discriminate.
  - injection H as H. destruct a; discriminate.
  - injection H as -> H. destruct (IH l H) as [-> ->]. now split.
Qed.

Theorem finite_it_prefix : forall (xs l : list val) pos,
    map Some l = filter (fun r => match r with Some _ => true | None => false end)
                        (map (fun k => nth_error xs k) (seq 0 pos)) ->
    prefix l xs.
Proof.
  intros xs l pos H.
  rewrite finite_it_shape, filter_some_shape in H.
  apply map_Some_inj in H. subst l. apply prefix_firstn.
Qed.
Print Assumptions finite_it_prefix.

Theorem finite_it_all : forall (xs l : list val) pos,
    map (fun k => nth_error xs k) (seq 0 pos) = map Some l ++ [None] -> l = xs.
Proof.
  intros xs l pos H.
  rewrite finite_it_shape in H.
  apply some_none_split in H. destruct H as [Hl Hk].
  subst l. apply firstn_all2. lia.
Qed.
Print Assumptions finite_it_all.
