(** * TreeFunctional: what each node of a program computes, in terms of what its children delivered.

    At every point of a reachable program net where the environment has the turn
    ([tpend N = PIdle]):
    - a map / filter / scan / take / skip node has delivered its list function of what its child
      delivered;
    - a concat! node all of whose members are wired has delivered the members' outputs one after
      the other, in member order (append - the concat! stage of C06);
    - a merge! node has delivered an interleaving of its members' outputs (each in its own order);
    - a for_each root has called its closure on exactly what its child delivered;
    - a from_iter leaf has delivered the defined prefix of its iterator.
    Together with [program_tree_sound] these equations determine what every program computes. *)

From CB Require Import ProofLib Spec MonitorSound Results Chain Programs Tree TreePrograms TreeWire.
From CB Require Import Order_nary Inv_for_each Inv_from_iter.

Set Implicit Arguments.

Section ProgFun.
  Variable ts : list tnode.
  Variable es : list edge.
  Variable N : tnet.
  Hypothesis Hok : Forall tnode_ok ts.
  Hypothesis Hes : edges_okb es (length ts) = true.
  Hypothesis Hsink : forall e, In e es -> nth_error ts (e_child e) <> Some TSink.
  Hypothesis Hr : tnet_reach (wiring_of es) (prog_net ts) N.
  Hypothesis Hidle : tpend N = PIdle.

  Let out (n : node) : list val := data_out 0 (ntrace n).

  (** along an edge, at an idle point: what the parent got on port k is what the child sent *)
  Lemma prog_wire c P k U D :
    In (c, P, k) es -> nth_error (tnodes N) c = Some U -> nth_error (tnodes N) P = Some D ->
    data_in k (ntrace D) = out U.
  Proof.
    intros Hin HU HD.
    set (sigs := map tsig ts).
    assert (Hlen : length sigs = length ts) by (unfold sigs; now rewrite map_length).
    pose proof (edges_ok_sound es (length ts) Hes) as Hw0.
    assert (Hw : wiring_ok (wiring_of es) (length sigs)) by (rewrite Hlen; exact Hw0).
    assert (Hp : par (wiring_of es) c = Some (P, k)).
    { destruct Hw0 as [_ _]. cbn.
      assert (H2 : nodupb Nat.eqb (map e_child es) = true).
      { unfold edges_okb in Hes. apply andb_prop in Hes. destruct Hes as [H _].
        apply andb_prop in H. tauto. }
      pose proof (@nodupb_find edge nat Nat.eqb e_child es (c, P, k) Nat.eqb_eq H2 Hin) as Hf.
      cbn in Hf. rewrite Hf. reflexivity. }
    assert (Hsafe : forall s, In s sigs -> safe_sig s).
    { intros s Hs. apply in_map_iff in Hs. destruct Hs as (t & <- & Ht).
      apply tsig_safe. rewrite Forall_forall in Hok. now apply Hok. }
    assert (Hreg : forall s, In s sigs -> tregime_ok s).
    { intros s Hs. apply in_map_iff in Hs. destruct Hs as (t & <- & _). apply tsig_regime. }
    assert (Hsync : forall c P k sc sp, par (wiring_of es) c = Some (P, k) ->
              nth_error sigs c = Some sc -> nth_error sigs P = Some sp ->
              late_ok (snd (fst sp)) = true \/ greets_sync_sig sc).
    { intros c0 P0 k0 sc sp Hp0 Hc _. right.
      unfold sigs in Hc. rewrite nth_error_map in Hc.
      destruct (nth_error ts c0) as [t|] eqn:Et; [|discriminate]. cbn in Hc. inversion Hc; subst sc.
      apply tsig_sync.
      - rewrite Forall_forall in Hok. apply Hok. exact (nth_error_In _ _ Et).
      - intros ->. cbn in Hp0.
        destruct (find (fun e => e_child e =? c0) es) as [e|] eqn:Ef; [|discriminate].
        destruct (find_in _ _ Ef) as [Hin' Hc']. apply Nat.eqb_eq in Hc'.
        apply (Hsink e Hin'). now rewrite Hc'. }
    assert (Hs : map nsig (map mk0 sigs) = sigs).
    { rewrite map_map. rewrite <- (map_id sigs) at 2. apply map_ext. apply nsig_mk0. }
    assert (Hi : forall m, In m (map mk0 sigs) -> ninit m).
    { intros m Hm. apply in_map_iff in Hm. destruct Hm as (s & <- & _). apply ninit_mk0. }
    pose proof (@tree_wire (wiring_of es) sigs Hw Hsafe Hreg Hsync (map mk0 sigs) N Hs Hi Hr) as Hwire.
    specialize (Hwire c P k U D Hp HU HD). rewrite Hidle in Hwire. cbn [tinflight] in Hwire.
    rewrite app_nil_r in Hwire. unfold out. now rewrite Hwire.
  Qed.

  (** the kind of a node of the net *)
  Lemma prog_node i n : nth_error (tnodes N) i = Some n ->
    exists t, nth_error ts i = Some t /\ nsig n = tsig t /\ tnode_ok t /\ nreach n.
  Proof.
    intros Hn. destruct (@program_tree_sound ts es N Hok Hes Hsink Hr i n Hn) as (Hsig & Hre & _).
    rewrite nth_error_map in Hsig. destruct (nth_error ts i) as [t|] eqn:Et; [|discriminate].
    cbn in Hsig. inversion Hsig. exists t. repeat split; auto.
    rewrite Forall_forall in Hok. apply Hok. exact (nth_error_In _ _ Et).
  Qed.

  Theorem prog_stage i n s c U :
    nth_error (tnodes N) i = Some n -> nth_error ts i = Some (TStage s) ->
    In (c, i, 0) es -> nth_error (tnodes N) c = Some U ->
    out n = usem1 s (out U).
  Proof.
    intros Hn Ht Hin HU. destruct (@prog_node i n Hn) as (t & Ht' & Hsig & Hokt & Hre).
    rewrite Ht in Ht'. inversion Ht'; subst t. cbn in Hokt.
    pose proof (@prog_wire c i 0 U n Hin HU Hn) as Hwre. unfold out in *. rewrite <- Hwre. clear Hwre.
    destruct n as [o p g cfg0]. unfold nsig, tsig, nreach, ntrace in *. cbn [nop npar ngrd ncfg] in *.
    inversion Hsig; subst o p g. clear Hsig.
    destruct s as [f|cd|r seed|k|k]; cbn in *.
    - exact (@Inv_map.map_functional f (p_tree false) eq_refl eq_refl eq_refl eq_refl cfg0 Hre).
    - exact (@Inv_filter.filter_functional cd (p_tree false) eq_refl eq_refl eq_refl eq_refl cfg0 Hre).
    - exact (@Inv_scan.scan_functional r seed (p_tree false) eq_refl eq_refl eq_refl eq_refl cfg0 Hre).
    - exact (@Inv_take.take_functional (p_tree false) eq_refl eq_refl eq_refl eq_refl k Hokt cfg0 Hre).
    - exact (@Inv_skip.skip_functional k (p_tree false) eq_refl eq_refl eq_refl eq_refl cfg0 Hre).
  Qed.

  (** concat!: append, in member order (all members wired) *)
  Theorem prog_concat i n k (kids : list nat) (Us : list node) :
    nth_error (tnodes N) i = Some n -> nth_error ts i = Some (TConcat k) ->
    length kids = k -> length Us = k ->
    (forall j c U, nth_error kids j = Some c -> nth_error Us j = Some U ->
       In (c, i, j) es /\ nth_error (tnodes N) c = Some U) ->
    out n = flat_map out Us.
  Proof.
    intros Hn Ht Hlk Hlu Hkids. destruct (@prog_node i n Hn) as (t & Ht' & Hsig & _ & Hre).
    rewrite Ht in Ht'. inversion Ht'; subst t.
    assert (Hlf : out n = flat_map (fun j => data_in j (ntrace n)) (seq 0 k)).
    { unfold out. destruct n as [o p g cfg0]. unfold nsig, tsig, nreach, ntrace in *.
      cbn [nop npar ngrd ncfg] in *. inversion Hsig; subst o p g. clear Hsig.
      exact (@concat_list_function k (p_tree false) eq_refl eq_refl eq_refl eq_refl eq_refl cfg0 Hre). }
    rewrite Hlf. clear Hlf.
    (* data_in j = out (U_j) for every j < k *)
    assert (Hj : forall j, j < k -> exists U, nth_error Us j = Some U /\ data_in j (ntrace n) = out U).
    { intros j Hjk.
      destruct (nth_error kids j) as [c|] eqn:Ec. 2: { apply nth_error_None in Ec. lia. }
      destruct (nth_error Us j) as [U|] eqn:Eu. 2: { apply nth_error_None in Eu. lia. }
      destruct (Hkids j c U Ec Eu) as [Hin HU]. exists U. split; [reflexivity|].
      exact (@prog_wire c i j U n Hin HU Hn). }
    assert (G : forall (l : list node) b,
              (forall j, j < length l -> exists U, nth_error l j = Some U /\
                          data_in (b + j) (ntrace n) = out U) ->
              flat_map (fun j => data_in j (ntrace n)) (seq b (length l)) = flat_map out l).
    { induction l as [|U l IH]; intros b H; [reflexivity|]. cbn [length seq flat_map].
      destruct (H 0 ltac:(cbn; lia)) as (U0 & E0 & D0). cbn in E0. inversion E0; subst U0.
      rewrite Nat.add_0_r in D0. rewrite D0. f_equal. apply IH. intros j Hj'.
      destruct (H (S j) ltac:(cbn; lia)) as (U' & E' & D'). cbn in E'.
      exists U'. split; [exact E'|]. replace (S b + j) with (b + S j) by lia. exact D'. }
    rewrite <- Hlu. apply (G Us 0). intros j Hjl. rewrite Hlu in Hjl. exact (Hj j Hjl).
  Qed.

  (** merge!: an interleaving of the members' outputs, each member in its own order *)
  Theorem prog_merge i n k (kids : list nat) (Us : list node) :
    nth_error (tnodes N) i = Some n -> nth_error ts i = Some (TMerge k) ->
    length kids = k -> length Us = k ->
    (forall j c U, nth_error kids j = Some c -> nth_error Us j = Some U ->
       In (c, i, j) es /\ nth_error (tnodes N) c = Some U) ->
    interleave (map out Us) (out n).
  Proof.
    intros Hn Ht Hlk Hlu Hkids. destruct (@prog_node i n Hn) as (t & Ht' & Hsig & Hokt & Hre).
    rewrite Ht in Ht'. inversion Ht'; subst t. cbn in Hokt.
    assert (Hil : interleave (map (fun j => data_in j (ntrace n)) (seq 0 k)) (out n)).
    { unfold out. destruct n as [o p g cfg0]. unfold nsig, tsig, nreach, ntrace in *.
      cbn [nop npar ngrd ncfg] in *. inversion Hsig; subst o p g. clear Hsig.
      exact (@merge_interleaves k (p_tree false) eq_refl eq_refl eq_refl eq_refl Hokt cfg0 Hre). }
    assert (Hj : forall j, j < k -> exists U, nth_error Us j = Some U /\ data_in j (ntrace n) = out U).
    { intros j Hjk.
      destruct (nth_error kids j) as [c|] eqn:Ec. 2: { apply nth_error_None in Ec. lia. }
      destruct (nth_error Us j) as [U|] eqn:Eu. 2: { apply nth_error_None in Eu. lia. }
      destruct (Hkids j c U Ec Eu) as [Hin HU]. exists U. split; [reflexivity|].
      exact (@prog_wire c i j U n Hin HU Hn). }
    assert (G : forall (l : list node) b,
              (forall j, j < length l -> exists U, nth_error l j = Some U /\
                          data_in (b + j) (ntrace n) = out U) ->
              map (fun j => data_in j (ntrace n)) (seq b (length l)) = map out l).
    { induction l as [|U l IH]; intros b H; [reflexivity|]. cbn [length seq map].
      destruct (H 0 ltac:(cbn; lia)) as (U0 & E0 & D0). cbn in E0. inversion E0; subst U0.
      rewrite Nat.add_0_r in D0. rewrite D0. f_equal. apply IH. intros j Hj'.
      destruct (H (S j) ltac:(cbn; lia)) as (U' & E' & D'). cbn in E'.
      exists U'. split; [exact E'|]. replace (S b + j) with (b + S j) by lia. exact D'. }
    rewrite <- Hlu in Hil. rewrite (G Us 0) in Hil; [exact Hil|].
    intros j Hjl. rewrite Hlu in Hjl. exact (Hj j Hjl).
  Qed.

  (** for_each at a root: the closure has been called on exactly what the child delivered *)
  Theorem prog_sink i n c U :
    nth_error (tnodes N) i = Some n -> nth_error ts i = Some TSink ->
    In (c, i, 0) es -> nth_error (tnodes N) c = Some U ->
    user_calls (ntrace n) = out U.
  Proof.
    intros Hn Ht Hin HU. destruct (@prog_node i n Hn) as (t & Ht' & Hsig & _ & Hre).
    rewrite Ht in Ht'. inversion Ht'; subst t.
    pose proof (@prog_wire c i 0 U n Hin HU Hn) as Hwre. rewrite <- Hwre.
    destruct n as [o p g cfg0]. unfold nsig, tsig, nreach, ntrace in *. cbn [nop npar ngrd ncfg] in *.
    inversion Hsig; subst o p g. exact (@for_each_user (p_tree false) cfg0 Hre).
  Qed.

  (** a from_iter leaf has delivered the defined prefix of its iterator *)
  Theorem prog_src i n it :
    nth_error (tnodes N) i = Some n -> nth_error ts i = Some (TSrc it) ->
    exists pos, map Some (out n) =
                filter (fun r => match r with Some _ => true | None => false end) (map it (seq 0 pos)).
  Proof.
    intros Hn Ht. destruct (@prog_node i n Hn) as (t & Ht' & Hsig & _ & Hre).
    rewrite Ht in Ht'. inversion Ht'; subst t. unfold out.
    destruct n as [o p g cfg0]. unfold nsig, tsig, nreach, ntrace in *. cbn [nop npar ngrd ncfg] in *.
    inversion Hsig; subst o p g.
    destruct (@from_iter_order it (p_tree true) eq_refl eq_refl eq_refl eq_refl cfg0 Hre) as [H1 H2].
    exists (fi_pos (cst cfg0)). now rewrite <- H1.
  Qed.
End ProgFun.

Print Assumptions prog_stage.
Print Assumptions prog_concat.
Print Assumptions prog_merge.
Print Assumptions prog_sink.
Print Assumptions prog_src.

