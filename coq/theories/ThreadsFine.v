(** * ThreadsFine: merge! under threads at the granularity of EVERY shared-state access,
      the talkback cells included (C18)

    [Threads.v] gives a member thread one scheduling point per counter/flag access; the cells
    [source_talkbacks[j]] (ArcSwapOption) are local to a step there.  The race repaired by
    /repo commit 13d4e7e (H10: a member greeting while the output ends) lives *between two
    accesses of such a cell*, below that granularity.  Here every access that
    /repo/src/verif_hooks.rs instruments is a step of its own, in the order of
    /repo/src/merge.rs:

      greeting      source_talkbacks[i].store(Some)   [slot.store]     MfAtPublish
                    ended.load()                       [bool.load]      MfAtEndedLoad
                    source_talkbacks[i].swap(None)     [slot.swap]      MfAtSelfSwap   (saw ended)
                    start_count.fetch_add(1)           [usize.fetch_add] MfAtStartInc
      Terminate arm source_talkbacks[i].store(None)    [slot.store]     MfAtClear
                    end_count.fetch_add(1)             [usize.fetch_add] MfAtEndInc
      Error arm     ended.store(true)                  [bool.store]     MfAtEndedStore
                    source_talkbacks[j].swap(None)     [slot.swap]      MfAtSweep j    (each j <> i)
      and one point inside every delivery to the sink.

    [fixed = false] is the code before 13d4e7e: the member looks at [ended] first and publishes
    its talkback afterwards ([MfAtPublishOld]); the failing sibling reads the cells with [load]
    and leaves them set.

    The harness runs the real crate with these very scheduling points when a thread script says
    [free=1] (harness/src/threads.rs) and the traces are compared event by event. *)

From CB Require Export ThreadSpec.

Set Implicit Arguments.

Inductive mf_pc : Type :=
| MfAtPublish
| MfAtEndedLoad
| MfAtSelfSwap
| MfAtPublishOld
| MfAtStartInc
| MfInGreet
| MfInData
| MfAtClear
| MfAtEndInc
| MfInTerm
| MfAtEndedStore (e : nat)
| MfAtSweep (e : nat) (j : nat)
| MfInErr
| MfFinished.

Record mf_thread : Type := mk_mf_thread { mf_pcv : mf_pc; mf_q : list val; mf_fin : final }.

Record mf_state : Type := mk_mf_state {
  mfs_start : nat; mfs_endc : nat; mfs_ended : bool;
  mfs_cell : nat -> bool;         (* source_talkbacks[j] holds member j's talkback *)
  mfs_stopped : nat -> bool;      (* member j's talkback received Terminate *)
  mfs_th : nat -> mf_thread;
  mfs_tr : list tevent;           (* latest first *)
}.

#[export] Instance eta_mf_thread : Settable _ := settable! mk_mf_thread <mf_pcv; mf_q; mf_fin>.
#[export] Instance eta_mf_state : Settable _ :=
  settable! mk_mf_state <mfs_start; mfs_endc; mfs_ended; mfs_cell; mfs_stopped; mfs_th; mfs_tr>.

Section MergeFine.
  Variable fixed : bool.
  Variable n : nat.

  Definition mf_init (qs : nat -> list val) (fins : nat -> final) : mf_state :=
    {| mfs_start := 0; mfs_endc := 0; mfs_ended := false;
       mfs_cell := fun _ => false; mfs_stopped := fun _ => false;
       mfs_th := fun t => {| mf_pcv := if t <? n then (if fixed then MfAtPublish else MfAtEndedLoad)
                                       else MfFinished;
                             mf_q := qs t; mf_fin := fins t |};
       mfs_tr := [] |}.

  Definition mf_set (s : mf_state) (t : nat) (th : mf_thread) : mf_state :=
    s <| mfs_th := upd (mfs_th s) t th |>.
  Definition mf_emit (s : mf_state) (t : nat) (e : tev) : mf_state :=
    s <| mfs_tr := (t, e) :: mfs_tr s |>.

  (** member [t] is between two calls of its handler: a member that has been told to stop starts
      nothing; otherwise the next datum (the Data arm has no instrumented access: the delivery
      begins in the same step), or its ending *)
  Definition mf_next (s : mf_state) (t : nat) (th : mf_thread) : mf_state :=
    if mfs_stopped s t then mf_set s t (th <| mf_pcv := MfFinished |>)
    else
      match mf_q th with
      | v :: q' => mf_set (mf_emit s t (TBegin (DD v))) t (th <| mf_pcv := MfInData |> <| mf_q := q' |>)
      | [] =>
          match mf_fin th with
          | FinTerm => mf_set s t (th <| mf_pcv := MfAtClear |>)
          | FinErr e => mf_set s t (th <| mf_pcv := MfAtEndedStore e |>)
          | FinNone => mf_set s t (th <| mf_pcv := MfFinished |>)
          end
      end.

  (** Terminate to member [j]'s talkback, called by thread [t] *)
  Definition mf_dispose (s : mf_state) (t j : nat) : mf_state :=
    mf_emit (s <| mfs_stopped := upd (mfs_stopped s) j true |>) t (TUp j UT).

  (** the Error arm's loop [for j in 0..n { if j != i {..} }] arrives at index [j] *)
  Definition mf_sweep_goto (s : mf_state) (t : nat) (th : mf_thread) (e j : nat) : mf_state :=
    let j' := if Nat.eqb j t then S j else j in
    if j' <? n then mf_set s t (th <| mf_pcv := MfAtSweep e j' |>)
    else mf_set (mf_emit s t (TBegin (DE e))) t (th <| mf_pcv := MfInErr |>).

  Definition mf_step (s : mf_state) (t : nat) : mf_state :=
    let th := mfs_th s t in
    match mf_pcv th with
    | MfAtPublish =>
        mf_set (s <| mfs_cell := upd (mfs_cell s) t true |>) t (th <| mf_pcv := MfAtEndedLoad |>)
    | MfAtEndedLoad =>
        if fixed then
          mf_set s t (th <| mf_pcv := if mfs_ended s then MfAtSelfSwap else MfAtStartInc |>)
        else if mfs_ended s then mf_next (mf_dispose s t t) t th      (* Terminate to its own talkback; return *)
        else mf_set s t (th <| mf_pcv := MfAtPublishOld |>)
    | MfAtSelfSwap =>
        (* whoever empties the cell disposes the member; then the handler returns *)
        let s1 := if mfs_cell s t
                  then mf_dispose (s <| mfs_cell := upd (mfs_cell s) t false |>) t t else s in
        mf_next s1 t th
    | MfAtPublishOld =>
        mf_set (s <| mfs_cell := upd (mfs_cell s) t true |>) t (th <| mf_pcv := MfAtStartInc |>)
    | MfAtStartInc =>
        let sc := S (mfs_start s) in
        let s1 := s <| mfs_start := sc |> in
        if Nat.eqb sc 1 then mf_set (mf_emit s1 t (TBegin DH)) t (th <| mf_pcv := MfInGreet |>)
        else mf_next s1 t th
    | MfInGreet | MfInData => mf_next (mf_emit s t TEnd) t th
    | MfAtClear =>
        mf_set (s <| mfs_cell := upd (mfs_cell s) t false |>) t (th <| mf_pcv := MfAtEndInc |>)
    | MfAtEndInc =>
        let ec := S (mfs_endc s) in
        let s1 := s <| mfs_endc := ec |> in
        if Nat.eqb ec n then mf_set (mf_emit s1 t (TBegin DT)) t (th <| mf_pcv := MfInTerm |>)
        else mf_set s1 t (th <| mf_pcv := MfFinished |>)
    | MfAtEndedStore e => mf_sweep_goto (s <| mfs_ended := true |>) t th e 0
    | MfAtSweep e j =>
        let s1 := if mfs_cell s j
                  then mf_dispose (if fixed then s <| mfs_cell := upd (mfs_cell s) j false |> else s) t j
                  else s in
        mf_sweep_goto s1 t th e (S j)
    | MfInTerm | MfInErr => mf_set (mf_emit s t TEnd) t (th <| mf_pcv := MfFinished |>)
    | MfFinished => s
    end.

  Definition mf_finished (s : mf_state) (t : nat) : bool :=
    match mf_pcv (mfs_th s t) with MfFinished => true | _ => false end.
End MergeFine.

(** ** what C18 asks of such a trace: the checks of [merge_check], and every member's talkback is
    told to stop at most once *)
Definition is_up_term_of (j : nat) (e : tevent) : bool :=
  match snd e with TUp i UT | TUp i (UE _) => Nat.eqb i j | _ => false end.

Definition merge_check_fine (n : nat) (qs : nat -> list val) (fins : nat -> final) (tr : list tevent)
  : list tviol :=
  merge_check n qs fins tr
  ++ flat_map (fun j => flagt (count (is_up_term_of j) tr <=? 1) TvDisposedTwice) (seq 0 n).

(** the two witness schedules of H10 (corpus/threads.txt), on the code before the fix *)
Definition h10_qs (t : nat) : list val :=
  match t with 0 => [VN 1; VN 3] | 1 => [VN 2] | _ => [] end.
Definition h10_fins (t : nat) : final := match t with 1 => FinErr 101 | _ => FinTerm end.
(** thread 1 runs up to its [ended.store]; thread 0 passes its [ended.load]; thread 1 stores the flag
    and walks the cells (cell 0 still empty); thread 0 publishes its talkback too late and goes on *)
Definition h10_sched : list nat := [1;1;1;1;1; 0; 1;1;1;1; 0;0;0;0;0;0;0;0].

(** ** take and combine at the same granularity

    On their racing paths these two touch a talkback cell once each.

    take: the delivery that reaches [max] claims the end with [end.swap(true)] and then reads the
    cell [source_talkback.load()] before it stops the upstream and completes the sink: between the two
    accesses [end] is set but nothing has been sent yet ([TkAtEndStore] plays "before the cell load"). *)
Section TakeFine.
  Variable max : nat.
  Definition tkf_step (s : tk_state) (t : nat) : tk_state :=
    let th := tks_th s t in
    match tk_pcv th with
    | TkAtEndLoad =>
        if tks_end s then tk_set s t (tk_next (tks_stopped s) th)
        else tk_set (s <| tks_end := true |>) t (th <| tk_pcv := TkAtEndStore |>)
    | TkAtEndStore => tk_end_now s t th
    | _ => tk_step true max s t
    end.
End TakeFine.

(** combine: a greeting member stores its talkback in its cell and then decrements [n_start]; the cell
    is only read by the sink's talkback.  At the granularity of every access the member thread makes one
    more step, which changes nothing any other thread can see: a stuttering extension of the model of
    [Threads.v], stated once for any step function. *)
Section Stutter.
  Variable S : Type.
  Variable step : S -> nat -> S.
  Variable finished : S -> nat -> bool.

  Record stut : Type := mk_stut { st_base : S; st_pub : nat -> bool }.

  Definition stut_init (s0 : S) : stut := {| st_base := s0; st_pub := fun _ => false |}.

  (** a thread that is not finished first publishes its talkback (nothing else changes) *)
  Definition stut_step (s : stut) (t : nat) : stut :=
    if st_pub s t then {| st_base := step (st_base s) t; st_pub := st_pub s |}
    else {| st_base := st_base s; st_pub := upd (st_pub s) t true |}.

  Definition stut_finished (s : stut) (t : nat) : bool := finished (st_base s) t.

  (** every state the finer system reaches projects to a state the coarser one reaches: whatever holds of
      all reachable states of the model of [Threads.v] holds at the finer granularity too *)
  Inductive stut_reach (s0 : S) : stut -> Prop :=
  | sr0 : stut_reach s0 (stut_init s0)
  | srS s t : stut_reach s0 s -> stut_reach s0 (stut_step s t).

  Inductive base_reach (s0 : S) : S -> Prop :=
  | br0 : base_reach s0 s0
  | brS s t : base_reach s0 s -> base_reach s0 (step s t).

  Lemma stut_refines s0 s : stut_reach s0 s -> base_reach s0 (st_base s).
  Proof.
    induction 1 as [|s t _ IH]; [constructor|].
    unfold stut_step. destruct (st_pub s t); cbn; [now constructor | exact IH].
  Qed.
End Stutter.
