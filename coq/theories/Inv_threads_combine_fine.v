(** * Inv_threads_combine_fine: C18 for combine! at the granularity of every shared-state access

    On its racing paths combine! touches a talkback cell once: a greeting member stores its talkback
    before it decrements [n_start].  The cell is read by the sink's talkback only, so at the finer
    granularity the member thread makes one more step that nothing else can see: the stuttering
    extension [stut_step (cb_step true n)] of ThreadsFine.v (what the driver runs for a combine script
    with free=1, compared with the crate step by step).  Every state it reaches projects to a state the
    model of Threads.v reaches; every theorem of Inv_threads_combine.v about all reachable states
    therefore holds at the finer granularity, for every schedule. *)
From CB Require Import Threads ThreadSpec ThreadsFine Inv_threads_combine.

Set Implicit Arguments.

Definition cbf_reach (n : nat) (qs : nat -> list val) (fins : nat -> final) (s : stut cb_state) : Prop :=
  stut_reach (cb_step true n) (cb_init n qs fins) s.

Lemma base_reach_cb n qs fins s :
  base_reach (cb_step true n) (cb_init n qs fins) s -> cb_reach n qs fins s.
Proof. induction 1; now constructor. Qed.

(** the transfer: whatever holds of every state reachable in the model of Threads.v holds of the
    projection of every state reachable at the finer granularity *)
Theorem combine_fine_transfer n qs fins (P : cb_state -> Prop) :
  (forall s, cb_reach n qs fins s -> P s) ->
  forall s, cbf_reach n qs fins s -> P (st_base s).
Proof. intros H s Hr. apply H, base_reach_cb, (stut_refines Hr). Qed.

Theorem combine_fine_no_panic n qs fins : 1 <= n -> forall s, cbf_reach n qs fins s ->
  cbs_panicked (st_base s) = false /\ existsb is_panic (cbs_tr (st_base s)) = false.
Proof.
  intros Hn. apply (@combine_fine_transfer n qs fins (fun b => cbs_panicked b = false /\ existsb is_panic (cbs_tr b) = false)).
  intros b Hb. destruct (combine_threads_no_panic Hn Hb) as (H1 & H2 & _). now split.
Qed.

Theorem combine_fine_greet_once n qs fins : 1 <= n -> forall s, cbf_reach n qs fins s ->
  count is_begin_greet (cbs_tr (st_base s)) <= 1 /\ before_greet_ok (rev (cbs_tr (st_base s))) = true.
Proof.
  intros Hn. apply (@combine_fine_transfer n qs fins
    (fun b => count is_begin_greet (cbs_tr b) <= 1 /\ before_greet_ok (rev (cbs_tr b)) = true)).
  intros b Hb. exact (combine_threads_greet_once Hn Hb).
Qed.

Theorem combine_fine_tuples n qs fins : 1 <= n -> forall s, cbf_reach n qs fins s ->
  forall t x, In (t, TBegin (DD x)) (cbs_tr (st_base s)) ->
  exists l, x = VT l /\ length l = n /\ tuple_ok qs 0 l = true.
Proof.
  intros Hn. apply (@combine_fine_transfer n qs fins
    (fun b => forall t x, In (t, TBegin (DD x)) (cbs_tr b) ->
                   exists l, x = VT l /\ length l = n /\ tuple_ok qs 0 l = true)).
  intros b Hb. exact (combine_threads_tuples Hn Hb).
Qed.

Theorem combine_fine_one_terminal n qs fins : 1 <= n -> forall s, cbf_reach n qs fins s ->
  count is_begin_term (cbs_tr (st_base s)) <= 1 /\
  scan_term (fun _ => false) false (rev (cbs_tr (st_base s))) = [].
Proof.
  intros Hn. apply (@combine_fine_transfer n qs fins
    (fun b => count is_begin_term (cbs_tr b) <= 1 /\
                   scan_term (fun _ => false) false (rev (cbs_tr b)) = [])).
  intros b Hb. destruct (combine_threads_one_terminal Hn Hb) as (H1 & _ & H3 & _). now split.
Qed.

Theorem combine_fine_final n qs fins : 1 <= n -> forall s, cbf_reach n qs fins s ->
  (forall t, t < n -> stut_finished cb_finished s t = true) ->
  combine_check n qs fins (rev (cbs_tr (st_base s))) = [].
Proof.
  intros Hn s Hr Hf. unfold stut_finished in Hf.
  exact (combine_threads_final Hn (base_reach_cb (stut_refines Hr)) Hf).
Qed.

(** what the driver runs for a combine script with free=1 *)
Lemma stut_run_sched_reach n qs fins sch : forall s, cbf_reach n qs fins s ->
  cbf_reach n qs fins (run_sched (stut_step (cb_step true n)) (stut_finished cb_finished) sch s).
Proof.
  induction sch as [|t sch IH]; intros s Hr; cbn; auto.
  apply IH. destruct (stut_finished cb_finished s t); auto. now constructor.
Qed.

Lemma stut_drain_reach n qs fins nth fuel : forall s, cbf_reach n qs fins s ->
  cbf_reach n qs fins (drain_threads (stut_step (cb_step true n)) (stut_finished cb_finished) nth fuel s).
Proof.
  induction fuel as [|fuel IH]; intros s Hr; cbn; auto.
  destruct (first_unfinished (stut_finished cb_finished) nth s); auto. apply IH. now constructor.
Qed.

Theorem combine_fine_driver_run n qs fins nth sch fuel : 1 <= n ->
  let s := run_full (stut_step (cb_step true n)) (stut_finished cb_finished) nth sch fuel
             (stut_init (cb_init n qs fins)) in
  cbs_panicked (st_base s) = false /\
  ((forall t, t < n -> stut_finished cb_finished s t = true) ->
   combine_check n qs fins (rev (cbs_tr (st_base s))) = []).
Proof.
  intros Hn s.
  assert (Hr : cbf_reach n qs fins s).
  { unfold s, run_full. apply stut_drain_reach, stut_run_sched_reach. constructor. }
  split; [exact (proj1 (combine_fine_no_panic Hn Hr)) | exact (combine_fine_final Hn Hr)].
Qed.

(** non-vacuity: a two-member run with interleaved publishing steps ends with one complete tuple *)
Example combine_fine_example :
  let qs := fun t => match t with 0 => [VN 1] | 1 => [VN 2] | _ => [] end in
  let fins := fun _ : nat => FinTerm in
  let s := run_full (stut_step (cb_step true 2)) (stut_finished cb_finished) 2 [0;1;1;0;0;1] 200
             (stut_init (cb_init 2 qs fins)) in
  (forall t, t < 2 -> stut_finished cb_finished s t = true) /\
  count is_begin_data (cbs_tr (st_base s)) = 1 /\ count is_begin_term (cbs_tr (st_base s)) = 1.
Proof. vm_compute. repeat split; intros [|[|t]] H; try reflexivity; exfalso; lia. Qed.

Print Assumptions combine_fine_transfer.
Print Assumptions combine_fine_no_panic.
Print Assumptions combine_fine_greet_once.
Print Assumptions combine_fine_tuples.
Print Assumptions combine_fine_one_terminal.
Print Assumptions combine_fine_final.
Print Assumptions combine_fine_driver_run.
