(* Driver around the extracted Coq model (model.ml).

   Everything that decides anything is extracted Coq: the machine ([step_spec]),
   the conformant environment ([enabled_spec]) and the monitor
   ([monitor_trace]).  This file only parses and prints scripts and traces,
   and proposes candidate moves to [enabled_spec] when generating scripts.

   sub-commands (scripts and traces are one per line):
     run                    stdin: scripts           stdout: "<trace> || <violations>"
     mon                    stdin: "<header> | <trace>"   stdout: "<violations>"
     gen SEED COUNT OPS..   stdout: scripts (random conformant walks)
     enum DEPTH OP-HEADER   stdout: every conformant script of <= DEPTH moves *)

open Model

let rec nat_of_int n = if n <= 0 then O else S (nat_of_int (n - 1))
let rec int_of_nat = function O -> 0 | S n -> 1 + int_of_nat n

(* ---------- headers ---------- *)

type header = {
  opname : string;
  kv : (string * string) list;
  sp : spec;
  pull : bool;
  nsk : int;
  subs : int;
}

let get kv k d = try List.assoc k kv with Not_found -> d
let geti kv k d = try int_of_string (List.assoc k kv) with Not_found -> d

let parse_list s =
  if s = "-" || s = "" then []
  else List.map int_of_string (String.split_on_char ',' s)

let spec_of opname kv =
  let n k d = nat_of_int (geti kv k d) in
  match opname with
  | "map" -> SpMap (n "a" 1, n "b" 0)
  | "filter" -> SpFilter (n "m" 2, n "r" 0)
  | "scan" -> SpScan (n "k" 0, n "seed" 0)
  | "take" -> SpTake (n "n" 1)
  | "skip" -> SpSkip (n "n" 1)
  | "from_iter" ->
      let xs = List.map nat_of_int (parse_list (get kv "xs" "-")) in
      let inf = match get kv "inf" "-" with "-" -> None | b -> Some (nat_of_int (int_of_string b)) in
      SpFromIter (xs, inf)
  | "for_each" -> SpForEach
  | "merge" -> SpMerge (n "n" 2)
  | "concat" -> SpConcat (n "n" 2)
  | "combine" -> SpCombine (n "n" 2)
  | "flatten" -> SpFlatten
  | "share" -> SpShare
  | "interval" -> SpInterval
  | "tree" -> SpTree
  | s -> failwith ("unknown op " ^ s)

let parse_header (s : string) : header =
  let toks = List.filter (fun t -> t <> "") (String.split_on_char ' ' s) in
  let kv = List.map (fun t ->
    match String.index_opt t '=' with
    | Some i -> (String.sub t 0 i, String.sub t (i + 1) (String.length t - i - 1))
    | None -> failwith ("bad header token " ^ t)) toks in
  let opname = get kv "op" "?" in
  { opname; kv; sp = spec_of opname kv;
    pull = (get kv "env" "std" = "pull");
    nsk = geti kv "sinks" 1;
    subs = geti kv "subs" 1 }

(* ---------- moves ---------- *)

let split2 s c =
  match String.index_opt s c with
  | Some i -> (String.sub s 0 i, Some (String.sub s (i + 1) (String.length s - i - 1)))
  | None -> (s, None)

let parse_val (s : string) : val0 =
  (* "5" or "(1,2,3)" *)
  if String.length s > 0 && s.[0] = '(' then
    let inner = String.sub s 1 (String.length s - 2) in
    VT (List.map (fun x -> VN (nat_of_int x)) (parse_list inner))
  else VN (nat_of_int (int_of_string s))

let parse_input (t : string) : input =
  let body = String.sub t 1 (String.length t - 1) in
  let (a, b) = split2 body '/' in
  let ai = nat_of_int (int_of_string a) in
  match t.[0] with
  | 'S' -> ISub (ai, (match b with Some x -> nat_of_int (int_of_string x) | None -> O))
  | 'P' -> IUp (ai, UP)
  | 'T' -> IUp (ai, UT)
  | 'E' -> IUp (ai, UE (nat_of_int (int_of_string (Option.get b))))
  | 'h' -> IDn (ai, DH)
  | 'd' -> IDn (ai, DD (parse_val (Option.get b)))
  | 't' -> IDn (ai, DT)
  | 'e' -> IDn (ai, DE (nat_of_int (int_of_string (Option.get b))))
  | 'k' -> ITick ai
  | _ -> failwith ("bad move " ^ t)

(* a move token, possibly prefixed by "<sub>:" *)
let parse_move (t : string) : int * move =
  let (sub, t) =
    if String.length t > 2 && t.[1] = ':' && t.[0] >= '0' && t.[0] <= '9'
    then (Char.code t.[0] - 48, String.sub t 2 (String.length t - 2))
    else (0, t) in
  if t = "r" then (sub, MRet) else (sub, MIn (parse_input t))

let rec str_val = function
  | VN n -> string_of_int (int_of_nat n)
  | VT l -> "(" ^ String.concat "," (List.map str_val l) ^ ")"

let str_input = function
  | ISub (s, O) -> Printf.sprintf "S%d" (int_of_nat s)
  | ISub (s, a) -> Printf.sprintf "S%d/%d" (int_of_nat s) (int_of_nat a)
  | IUp (s, UP) -> Printf.sprintf "P%d" (int_of_nat s)
  | IUp (s, UT) -> Printf.sprintf "T%d" (int_of_nat s)
  | IUp (s, UE e) -> Printf.sprintf "E%d/%d" (int_of_nat s) (int_of_nat e)
  | IDn (i, DH) -> Printf.sprintf "h%d" (int_of_nat i)
  | IDn (i, DD v) -> Printf.sprintf "d%d/%s" (int_of_nat i) (str_val v)
  | IDn (i, DT) -> Printf.sprintf "t%d" (int_of_nat i)
  | IDn (i, DE e) -> Printf.sprintf "e%d/%d" (int_of_nat i) (int_of_nat e)
  | ITick s -> Printf.sprintf "k%d" (int_of_nat s)

let str_move = function MRet -> "r" | MIn i -> str_input i

let str_umsg = function
  | UP -> "P" | UT -> "T" | UE e -> Printf.sprintf "E%d" (int_of_nat e)
let str_dmsg = function
  | DH -> "H" | DT -> "T" | DE e -> Printf.sprintf "E%d" (int_of_nat e)
  | DD v -> "D" ^ str_val v

let str_call = function
  | CSub i -> Printf.sprintf "<sub%d" (int_of_nat i)
  | CUp (i, m) -> Printf.sprintf "<up%d:%s" (int_of_nat i) (str_umsg m)
  | CDn (s, m) -> Printf.sprintf "<dn%d:%s" (int_of_nat s) (str_dmsg m)

let str_event = function
  | EIn i -> ">" ^ str_input i
  | ECall c -> str_call c
  | ERet -> "ret"
  | EDone -> "done"
  | EObs (ONext None) -> "next:-"
  | EObs (ONext (Some v)) -> "next:" ^ str_val v
  | EObs (OUser v) -> "user:" ^ str_val v
  | EObs (OSpawn (s, ok)) -> Printf.sprintf "spawn%d:%s" (int_of_nat s) (if ok then "ok" else "err")
  | EObs (OExit s) -> Printf.sprintf "exit%d" (int_of_nat s)
  | EPanic -> "PANIC"

let str_viol = function
  | VGreetTwice s -> Printf.sprintf "C01:GreetTwice:%d" (int_of_nat s)
  | VBeforeGreet s -> Printf.sprintf "C01:BeforeGreet:%d" (int_of_nat s)
  | VAfterFinish s -> Printf.sprintf "C02:AfterFinish:%d" (int_of_nat s)
  | VAfterDispose s -> Printf.sprintf "C03:AfterDispose:%d" (int_of_nat s)
  | VSubTwice i -> Printf.sprintf "C04:SubTwice:%d" (int_of_nat i)
  | VSubAfterOver i -> Printf.sprintf "C04:SubAfterOver:%d" (int_of_nat i)
  | VUpEarly i -> Printf.sprintf "C04:UpEarly:%d" (int_of_nat i)
  | VPullAfterEnd i -> Printf.sprintf "C04:PullAfterEnd:%d" (int_of_nat i)
  | VStopAfterEnd i -> Printf.sprintf "C04:StopAfterEnd:%d" (int_of_nat i)
  | VPullAfterStop i -> Printf.sprintf "C04:PullAfterStop:%d" (int_of_nat i)
  | VStopAfterStop i -> Printf.sprintf "C04:StopAfterStop:%d" (int_of_nat i)
  | VOrphan i -> Printf.sprintf "C04:Orphan:%d" (int_of_nat i)
  | VErrLost s -> Printf.sprintf "C05:ErrLost:%d" (int_of_nat s)
  | VErrChanged s -> Printf.sprintf "C05:ErrChanged:%d" (int_of_nat s)
  | VNested s -> Printf.sprintf "C15:Nested:%d" (int_of_nat s)
  | VOverPull i -> Printf.sprintf "C14:OverPull:%d" (int_of_nat i)
  | VOverData s -> Printf.sprintf "C14:OverData:%d" (int_of_nat s)
  | VUnanswered s -> Printf.sprintf "C14:Unanswered:%d" (int_of_nat s)
  | VPanic -> "C17:Panic"

let str_class = function
  | KMemberError -> "MemberError"
  | KNestedFanout -> "NestedFanout"

(* ---------- parsing traces back into events (for [mon]) ---------- *)

let parse_umsg s =
  match s.[0] with
  | 'P' -> UP | 'T' -> UT
  | 'E' -> UE (nat_of_int (int_of_string (String.sub s 1 (String.length s - 1))))
  | _ -> failwith ("bad umsg " ^ s)
let parse_dmsg s =
  match s.[0] with
  | 'H' -> DH | 'T' -> DT
  | 'E' -> DE (nat_of_int (int_of_string (String.sub s 1 (String.length s - 1))))
  | 'D' -> DD (parse_val (String.sub s 1 (String.length s - 1)))
  | _ -> failwith ("bad dmsg " ^ s)

let starts_with p s =
  String.length s >= String.length p && String.sub s 0 (String.length p) = p

let after p s = String.sub s (String.length p) (String.length s - String.length p)

let parse_event (t : string) : event option =
  if t = "ret" then Some ERet
  else if t = "done" then Some EDone
  else if t = "PANIC" then Some EPanic
  else if t.[0] = '>' then Some (EIn (parse_input (after ">" t)))
  else if starts_with "<sub" t then Some (ECall (CSub (nat_of_int (int_of_string (after "<sub" t)))))
  else if starts_with "<up" t then
    let (a, b) = split2 (after "<up" t) ':' in
    Some (ECall (CUp (nat_of_int (int_of_string a), parse_umsg (Option.get b))))
  else if starts_with "<dn" t then
    let (a, b) = split2 (after "<dn" t) ':' in
    Some (ECall (CDn (nat_of_int (int_of_string a), parse_dmsg (Option.get b))))
  else if starts_with "next:" t then
    let r = after "next:" t in
    Some (EObs (ONext (if r = "-" then None else Some (parse_val r))))
  else if starts_with "user:" t then Some (EObs (OUser (parse_val (after "user:" t))))
  else if starts_with "spawn" t then
    let (a, b) = split2 (after "spawn" t) ':' in
    Some (EObs (OSpawn (nat_of_int (int_of_string a), Option.get b = "ok")))
  else if starts_with "exit" t then Some (EObs (OExit (nat_of_int (int_of_string (after "exit" t)))))
  else None   (* unknown tokens (e.g. "?...") are not events of the alphabet *)

(* ---------- running ---------- *)

let tokens s = List.filter (fun t -> t <> "") (String.split_on_char ' ' s)

let split_bar (line : string) : string * string =
  match String.index_opt line '|' with
  | Some i -> (String.sub line 0 i, String.sub line (i + 1) (String.length line - i - 1))
  | None -> (line, "")

let rec drop n l = if n <= 0 then l else match l with [] -> [] | _ :: t -> drop (n - 1) t

(* run one script; returns trace tokens and violation tokens *)
let run_script (h : header) (moves : (int * move) list) : string list * string list =
  let nsk = nat_of_int h.nsk in
  let cfgs = Array.init (max 1 h.subs) (fun _ -> cfg0_spec h.sp) in
  let out = ref [] in
  List.iter (fun (sub, m) ->
    if sub < Array.length cfgs then begin
      let c = cfgs.(sub) in
      let before = List.length (trace_spec h.sp c) in
      let c' = step_spec h.sp h.pull nsk c m in
      cfgs.(sub) <- c';
      let evs = drop before (trace_spec h.sp c') in
      List.iter (fun e ->
        let t = str_event e in
        out := (if h.subs > 1 then Printf.sprintf "%d:%s" sub t else t) :: !out) evs
    end) moves;
  let viols = List.concat (Array.to_list (Array.mapi (fun k c ->
    List.map (fun v -> if h.subs > 1 then Printf.sprintf "%d:%s" k (str_viol v) else str_viol v)
      (viols_spec h.sp c)) cfgs)) in
  (List.rev !out, viols)

(* is every move of the script enabled (conformant environment) in the model?  one "1"/"0" per line.
   Used by the shrinker: a replay must stay inside what the theorems quantify over. *)
let cmd_conf () =
  try
    while true do
      let line = input_line stdin in
      if String.trim line <> "" then begin
        let (hs, ms) = split_bar line in
        let h = parse_header hs in
        let moves = List.map parse_move (tokens ms) in
        let nsk = nat_of_int h.nsk in
        let cfgs = Array.init (max 1 h.subs) (fun _ -> cfg0_spec h.sp) in
        let ok = ref true in
        List.iter (fun (sub, m) ->
          if sub < Array.length cfgs then begin
            let c = cfgs.(sub) in
            if not (enabled_spec h.sp h.pull nsk c m) then ok := false;
            cfgs.(sub) <- step_spec h.sp h.pull nsk c m
          end else ok := false) moves;
        print_endline (if !ok then "1" else "0")
      end
    done
  with End_of_file -> ()

let cmd_run () =
  try
    while true do
      let line = input_line stdin in
      if String.trim line <> "" then begin
        let (hs, ms) = split_bar line in
        let h = parse_header hs in
        let moves = List.map parse_move (tokens ms) in
        let (tr, vs) = run_script h moves in
        print_string (String.concat " " tr);
        print_string " || ";
        print_endline (String.concat " " vs)
      end
    done
  with End_of_file -> ()

(* monitor over a recorded trace; for subs > 1 the trace is projected per sub *)
let cmd_mon () =
  try
    while true do
      let line = input_line stdin in
      if String.trim line <> "" then begin
        let (hs, ts) = split_bar line in
        let h = parse_header hs in
        let toks = tokens ts in
        let nsk = nat_of_int h.nsk in
        let out = ref [] in
        let cls = ref [] in
        for k = 0 to max 1 h.subs - 1 do
          let mine =
            if h.subs > 1 then
              List.filter_map (fun t ->
                if String.length t > 2 && t.[1] = ':' && Char.code t.[0] - 48 = k
                then Some (String.sub t 2 (String.length t - 2)) else None) toks
            else toks in
          let evs = List.filter_map parse_event mine in
          let vs = monitor_trace h.sp h.pull nsk evs in
          List.iter (fun v ->
            out := (if h.subs > 1 then Printf.sprintf "%d:%s" k (str_viol v) else str_viol v) :: !out) vs;
          List.iter (fun (SV (pr, code)) ->
            let t = Printf.sprintf "C%02d:S%d" (int_of_nat pr) (int_of_nat code) in
            let t = if h.subs > 1 then Printf.sprintf "%d:%s" k t else t in
            if not (List.mem t !out) then out := t :: !out) (smonitor_trace h.sp h.pull nsk evs);
          List.iter (fun c ->
            let n = str_class c in
            if not (List.mem n !cls) then cls := n :: !cls) (classes_trace evs)
        done;
        print_endline (String.concat " " (List.rev !out) ^ " ## " ^ String.concat " " (List.rev !cls))
      end
    done
  with End_of_file -> ()

(* ---------- generation ---------- *)

(* splitmix64 on OCaml's 63-bit ints is awkward; use Int64 *)
let rng_state = ref 0L
let next_u64 () =
  let open Int64 in
  rng_state := add !rng_state 0x9E3779B97F4A7C15L;
  let z = !rng_state in
  let z = mul (logxor z (shift_right_logical z 30)) 0xBF58476D1CE4E5B9L in
  let z = mul (logxor z (shift_right_logical z 27)) 0x94D049BB133111EBL in
  logxor z (shift_right_logical z 31)
let rand n = if n <= 0 then 0 else Int64.to_int (Int64.unsigned_rem (next_u64 ()) (Int64.of_int n))

let nports (h : header) : int =
  match h.opname with
  | "merge" | "concat" | "combine" -> geti h.kv "n" 2
  | "flatten" -> 5
  | "from_iter" | "interval" -> 0
  | _ -> 1

(* candidate inputs with weights; [fresh_err] supplies a new error id *)
let candidates (h : header) (vcount : int ref) (ecount : int ref) : (int * move) list =
  let np = nports h in
  let nsk = h.nsk in
  let acc = ref [] in
  let add w m = acc := (w, m) :: !acc in
  add 30 MRet;
  for s = 0 to nsk - 1 do
    let sn = nat_of_int s in
    if h.opname = "interval" then begin
      add 20 (MIn (ISub (sn, O)));
      add 4 (MIn (ISub (sn, S O)));
      add 4 (MIn (ISub (sn, S (S O))));
      add 25 (MIn (ITick sn))
    end else add 25 (MIn (ISub (sn, O)));
    add 25 (MIn (IUp (sn, UP)));
    add 6 (MIn (IUp (sn, UT)));
    add 3 (MIn (IUp (sn, UE (nat_of_int (100 + !ecount)))))
  done;
  for i = 0 to np - 1 do
    let inn = nat_of_int i in
    add 40 (MIn (IDn (inn, DH)));
    if h.opname = "flatten" && i = 0 then begin
      for k = 0 to 3 do add 8 (MIn (IDn (O, DD (VN (nat_of_int k))))) done;
      (* 100+k is the SAME inner source value as k, emitted again (the harness hands out one Arc for both) *)
      for k = 0 to 1 do add 5 (MIn (IDn (O, DD (VN (nat_of_int (100 + k)))))) done
    end else
      add 30 (MIn (IDn (inn, DD (VN (nat_of_int (match rand 12 with
                                                  | 0 | 1 | 2 -> !vcount mod 10
                                                  | 3 -> 10 + rand 90      (* now and then a larger value *)
                                                  | _ -> rand 10))))));
    add 8 (MIn (IDn (inn, DT)));
    add 4 (MIn (IDn (inn, DE (nat_of_int (100 + !ecount)))))
  done;
  if h.opname = "flatten" then
    List.iter (fun i ->
      let inn = nat_of_int i in
      add 30 (MIn (IDn (inn, DH)));
      add 24 (MIn (IDn (inn, DD (VN (nat_of_int (rand 10))))));
      add 6 (MIn (IDn (inn, DT)));
      add 3 (MIn (IDn (inn, DE (nat_of_int (100 + !ecount)))))) [101; 102];
  !acc

let pick (l : (int * move) list) : move option =
  let total = List.fold_left (fun a (w, _) -> a + w) 0 l in
  if total = 0 then None
  else begin
    let r = ref (rand total) in
    let res = ref None in
    List.iter (fun (w, m) ->
      if !res = None then (if !r < w then res := Some m else r := !r - w)) l;
    !res
  end

(* "late" moves: a peer that uses a talkback / handler after the protocol is over for it.  A
   conformant peer never does; the crate's own deviating operators do (combine pulls ended members,
   share's nested fan-out).  Scripts with late=1 contain such moves; they are only used to compare
   model and crate (no monitor verdicts).  Excluded where the model is knowingly not faithful
   outside the protocol (counter underflow / index out of bounds in combine and concat). *)
let is_late_move (h : header) (tr : event list) (m : move) : bool =
  match m with
  | MIn (IUp (s, _)) ->
      (* the sink was greeted at some point (it holds a talkback) *)
      List.exists (fun e -> match e with ECall (CDn (s', DH)) -> s' = s | _ -> false) tr
  | MIn (IDn (_, DH)) -> false
  | MIn (IDn (i, _)) ->
      h.opname <> "concat" && h.opname <> "combine"
      && List.exists (fun e -> match e with EIn (IDn (i', DH)) -> i' = i | _ -> false) tr
  | _ -> false

let gen_script (h : header) (maxlen : int) : string =
  let nsk = nat_of_int h.nsk in
  let nsub = max 1 h.subs in
  let cfgs = Array.init nsub (fun _ -> cfg0_spec h.sp) in
  let vcount = ref 0 and ecount = ref 0 in
  let out = ref [] in
  let len = ref 0 in
  let stop = ref false in
  (* subscriptions owning the currently open frames, innermost first: a return always closes the
     innermost frame; other moves may come from ANY subscription (a subscription acting from inside
     another one's handler, e.g. nested for_each over the same source - C13) *)
  let gstack = ref [] in
  while not !stop && !len < maxlen do
    let sub =
      match !gstack with
      | [] -> rand nsub
      | top :: _ -> if nsub > 1 && rand 4 = 0 then rand nsub else top in
    let c = cfgs.(sub) in
    let depth = int_of_nat (depth_spec h.sp c) in
    let cands = candidates h vcount ecount in
    let cands = List.filter_map (fun (w, m) ->
      match m with
      | MRet ->
          (match !gstack with
           | top :: _ when top = sub -> Some ((if List.length !gstack > 3 then w * 4 else w), m)
           | _ -> None)
      | _ -> Some (w, m)) cands in
    let late = get h.kv "late" "0" = "1" in
    let en = List.filter (fun (_, m) ->
      enabled_spec h.sp h.pull nsk c m
      || (late && rand 5 = 0 && is_late_move h (trace_spec h.sp c) m)) cands in
    match pick en with
    | None -> if !gstack = [] || sub <> List.hd !gstack then (if rand 8 = 0 then stop := true) else stop := true
    | Some m ->
        (match m with
         | MIn (IDn (_, DD _)) -> incr vcount
         | MIn (IDn (_, DE _)) | MIn (IUp (_, UE _)) -> incr ecount
         | _ -> ());
        let c' = step_spec h.sp h.pull nsk c m in
        cfgs.(sub) <- c';
        let depth' = int_of_nat (depth_spec h.sp c') in
        if depth' > depth then gstack := sub :: !gstack
        else if depth' < depth then (match !gstack with _ :: r -> gstack := r | [] -> ());
        out := (if nsub > 1 then Printf.sprintf "%d:%s" sub (str_move m) else str_move m) :: !out;
        incr len
  done;
  String.concat " " (List.rev !out)

(* random header for an operator family *)
let forced : (string * string) list ref = ref []

let gen_header (opname : string) : string =
  let env = if rand 4 = 0 then "pull" else "std" in
  let env = try List.assoc "env" !forced with Not_found -> env in
  let subs = if rand 6 = 0 && opname <> "share" then 2 else 1 in
  let subs = try int_of_string (List.assoc "subs" !forced) with Not_found -> subs in
  let subs = if opname = "share" then 1 else subs in
  let base =
    match opname with
    | "map" -> Printf.sprintf "op=map a=%d b=%d" (1 + rand 3) (rand 3)
    | "filter" -> let m = 2 + rand 2 in Printf.sprintf "op=filter m=%d r=%d" m (rand m)
    | "scan" -> Printf.sprintf "op=scan k=%d seed=%d" (rand 3) (rand 4)
    | "take" -> Printf.sprintf "op=take n=%d" (if rand 8 = 0 then 4 + rand 5 else 1 + rand 3)
    | "skip" -> Printf.sprintf "op=skip n=%d" (if rand 8 = 0 then 4 + rand 5 else rand 4)
    | "from_iter" ->
        let l = if rand 8 = 0 then 5 + rand 6 else rand 5 in
        let xs = List.init l (fun _ -> string_of_int (rand 10)) in
        Printf.sprintf "op=from_iter xs=%s inf=%s"
          (if l = 0 then "-" else String.concat "," xs)
          (if rand 4 = 0 then string_of_int (rand 10) else "-")
    | "for_each" -> "op=for_each"
    | "merge" -> Printf.sprintf "op=merge n=%d" (if rand 7 = 0 then 4 + rand 3 else 1 + rand 3)
    | "concat" -> Printf.sprintf "op=concat n=%d" (if rand 7 = 0 then 4 + rand 3 else 1 + rand 3)
    | "combine" -> Printf.sprintf "op=combine n=%d" (if rand 8 = 0 then 4 + rand 9 else 1 + rand 3)
    | "flatten" -> "op=flatten"
    | "share" -> Printf.sprintf "op=share sinks=%d" (1 + rand 3)
    | "interval" -> "op=interval"
    | s -> failwith ("unknown op " ^ s) in
  let late = try List.assoc "late" !forced with Not_found -> "0" in
  if late = "1" then Printf.sprintf "%s env=std subs=1 late=1" base
  else Printf.sprintf "%s env=%s subs=%d" base env subs

let cmd_gen seed count ops =
  rng_state := Int64.of_int seed;
  (* tokens of the form key=value force that header field (env=pull, subs=2) *)
  forced := List.filter_map (fun t ->
    match String.index_opt t '=' with
    | Some i -> Some (String.sub t 0 i, String.sub t (i + 1) (String.length t - i - 1))
    | None -> None) ops;
  let ops = List.filter (fun t -> not (String.contains t '=')) ops in
  let ops = Array.of_list ops in
  for _ = 1 to count do
    let opname = ops.(rand (Array.length ops)) in
    let hs = gen_header opname in
    let h = parse_header hs in
    let maxlen = if rand 10 = 0 then 30 + rand 60 else 4 + rand 28 in
    Printf.printf "%s | %s\n" hs (gen_script h maxlen)
  done

(* exhaustive enumeration of conformant scripts up to a depth (single subscription) *)
let cmd_enum depth hs =
  let h = parse_header hs in
  let nsk = nat_of_int h.nsk in
  let vcount = ref 0 and ecount = ref 0 in
  let rec go c pref d =
    if pref <> [] then Printf.printf "%s | %s\n" hs (String.concat " " (List.rev pref));
    if d > 0 then begin
      let cands = candidates h vcount ecount in
      (* de-duplicate candidate moves (flatten / values) *)
      let seen = Hashtbl.create 16 in
      List.iter (fun (_, m) ->
        let key = str_move m in
        if not (Hashtbl.mem seen key) then begin
          Hashtbl.add seen key ();
          if enabled_spec h.sp h.pull nsk c m then
            go (step_spec h.sp h.pull nsk c m) (key :: pref) (d - 1)
        end) cands
    end in
  go (cfg0_spec h.sp) [] depth

(* ---------- pipelines (C06) ---------- *)

let parse_stage1 (t : string) : stage =
  let parts = Array.of_list (String.split_on_char ':' t) in
  let num i = if i < Array.length parts then nat_of_int (int_of_string parts.(i)) else O in
  let lst i = if i < Array.length parts then List.map nat_of_int (parse_list parts.(i)) else [] in
  match parts.(0) with
  | "map" -> StMap (num 1, num 2)
  | "filter" -> StFilter (num 1, num 2)
  | "scan" -> StScan (num 1, num 2)
  | "take" -> StTake (num 1)
  | "skip" -> StSkip (num 1)
  | "append" -> StAppend (lst 1)
  | "prepend" -> StPrepend (lst 1)
  | "flatmap" -> StFlatMap (num 1)
  | s -> failwith ("unknown stage " ^ s)

(* cat:m1/m2/../mk = concat! of k members, exactly one of which ("_") is the upstream pipeline and the
   others are from_iter over a list ("-" = empty): as a list function, prepend what is before and append
   what is after *)
let parse_stage (t : string) : stage list =
  if String.length t > 4 && String.sub t 0 4 = "cat:" then begin
    let ms = String.split_on_char '/' (String.sub t 4 (String.length t - 4)) in
    let rec split pre = function
      | [] -> failwith "cat: no upstream member"
      | "_" :: post -> (List.rev pre, post)
      | m :: rest -> split (m :: pre) rest in
    let (pre, post) = split [] ms in
    let cat l = List.concat_map (fun m -> List.map nat_of_int (parse_list m)) l in
    [StPrepend (cat pre); StAppend (cat post)]
  end else [parse_stage1 t]

let cmd_pipe () =
  try
    while true do
      let line = input_line stdin in
      if String.trim line <> "" then begin
        let h = List.map (fun t ->
          match String.index_opt t '=' with
          | Some i -> (String.sub t 0 i, String.sub t (i + 1) (String.length t - i - 1))
          | None -> (t, "")) (tokens line) in
        let xs = List.map nat_of_int (parse_list (get h "xs" "-")) in
        let inf = match get h "inf" "-" with "-" -> None | b -> Some (nat_of_int (int_of_string b)) in
        let st = get h "stages" "-" in
        let stages = if st = "-" || st = "" then []
          else List.concat_map parse_stage (List.filter (fun s -> s <> "") (String.split_on_char ';' st)) in
        let ((outs, pos), fin) = run_pipe_spec stages xs inf (nat_of_int 400) (nat_of_int 3000) in
        let u = String.concat " " (List.map (fun v -> Printf.sprintf "user:%d" (int_of_nat v)) outs) in
        let u = if u = "" then "" else u ^ " " in
        Printf.printf "F: %snexts=%d | P: %snexts=%d done=%d\n" u (int_of_nat pos) u (int_of_nat pos)
          (if fin then 1 else 0)
      end
    done
  with End_of_file -> ()

(* the net of component models that LivenessG.pipeline_completes / take_stops talk about, run to rest
   (PipeNetG.v); only pipelines of map/filter/scan/take/skip: anything else prints "-".  The step bound is the
   theorems' own: computed from the length of a finite input, or (unbounded input) from the count of the
   first take when only map/scan stages precede it; an unbounded input without such a take prints "-". *)
let cmd_netpipe () =
  try
    while true do
      let line = input_line stdin in
      if String.trim line <> "" then begin
        let h = List.map (fun t ->
          match String.index_opt t '=' with
          | Some i -> (String.sub t 0 i, String.sub t (i + 1) (String.length t - i - 1))
          | None -> (t, "")) (tokens line) in
        let xs = List.map nat_of_int (parse_list (get h "xs" "-")) in
        let inf = match get h "inf" "-" with "-" -> None | b -> Some (int_of_string b) in
        let st = get h "stages" "-" in
        let parts = List.filter (fun s -> s <> "") (String.split_on_char ';' (if st = "-" then "" else st)) in
        let has pre s = String.length s > String.length pre && String.sub s 0 (String.length pre) = pre in
        let unary = List.for_all (fun s -> List.exists (fun pre -> has pre s)
                                   ["map:"; "filter:"; "scan:"; "take:"; "skip:"]) parts in
        (* the take that cuts an unbounded input: only map/scan before it *)
        let rec first_take = function
          | [] -> None
          | s :: r -> if has "take:" s then Some (int_of_string (String.sub s 5 (String.length s - 5)))
                      else if has "map:" s || has "scan:" s then first_take r else None in
        let bound = match inf with
          | None -> Some (List.length xs)
          | Some _ -> (match first_take parts with Some n when n >= 1 -> Some n | _ -> None) in
        match unary, bound with
        | true, Some b ->
          let stages = List.concat_map parse_stage parts in
          (match net_pipe_run stages xs (match inf with None -> None | Some b0 -> Some (nat_of_int b0)) (nat_of_int b) with
           | None -> print_endline "-"
           | Some (((outs, nx), fin), idle) ->
               let u = String.concat " " (List.map (fun v -> Printf.sprintf "user:%d" (int_of_nat v)) outs) in
               let u = if u = "" then "" else u ^ " " in
               Printf.printf "F: %snexts=%d | P: %snexts=%d done=%d%s\n" u (int_of_nat nx) u (int_of_nat nx)
                 (if fin then 1 else 0) (if idle then "" else " NOT-AT-REST"))
        | _ -> print_endline "-"
      end
    done
  with End_of_file -> ()

let gen_list () : string =
  let l = rand 3 in
  if l = 0 then "-" else String.concat "," (List.init l (fun _ -> string_of_int (rand 10)))

let gen_stage () : string =
  match rand 12 with
  | 10 | 11 ->
      (* concat! of 2-4 members, one of them the pipeline so far; empty members at every position *)
      let k = 2 + rand 3 in
      let up = rand k in
      "cat:" ^ String.concat "/" (List.init k (fun i -> if i = up then "_" else if rand 3 = 0 then "-" else gen_list ()))
  | 0 | 1 -> Printf.sprintf "map:%d:%d" (1 + rand 3) (rand 3)
  | 2 | 3 -> let m = 1 + rand 3 in Printf.sprintf "filter:%d:%d" m (rand m)
  | 4 -> Printf.sprintf "scan:%d:%d" (rand 3) (rand 4)
  | 5 | 6 -> Printf.sprintf "take:%d" (1 + rand 4)
  | 7 -> Printf.sprintf "skip:%d" (rand 4)
  | 8 -> let l = rand 3 in
         if rand 2 = 0 then Printf.sprintf "append:%s" (if l = 0 then "-" else String.concat "," (List.init l (fun _ -> string_of_int (rand 10))))
         else Printf.sprintf "prepend:%s" (if l = 0 then "-" else String.concat "," (List.init l (fun _ -> string_of_int (rand 10))))
  | _ -> Printf.sprintf "flatmap:%d" (rand 4)

let cmd_genpipe seed count =
  rng_state := Int64.of_int seed;
  for _ = 1 to count do
    let n = rand 6 in
    let stages = List.init n (fun _ -> gen_stage ()) in
    let has_take = List.exists (fun s -> String.length s > 4 && String.sub s 0 4 = "take") stages in
    let l = rand 9 in
    let xs = List.init l (fun _ -> string_of_int (rand 10)) in
    let inf = if has_take && rand 3 = 0 then string_of_int (rand 10) else "-" in
    (* an unbounded input is only used when a take makes the program finite; upstream of the
       first take nothing may starve it (no filter, no flat-map with empty inners) *)
    let starts p s = String.length s >= String.length p && String.sub s 0 (String.length p) = p in
    let stages =
      if inf <> "-" then begin
        let seen_take = ref false in
        List.filter (fun s ->
          if starts "take" s then (seen_take := true; true)
          else !seen_take || not (starts "filter" s || starts "flatmap" s || starts "scan:2" s)) stages
      end else stages in
    Printf.printf "xs=%s inf=%s stages=%s\n"
      (if l = 0 then "-" else String.concat "," xs) inf
      (if stages = [] then "-" else String.concat ";" stages)
  done

(* ---------- thread experiments (C18, C19) ---------- *)

type theader = {
  tkv : (string * string) list;
  sys : tsys;
  nth : int;
  qs : nat -> val0 list;
  fins : nat -> final;
  sched : int list;
}

let parse_theader (line : string) : theader =
  let kv = List.map (fun t ->
    match String.index_opt t '=' with
    | Some i -> (String.sub t 0 i, String.sub t (i + 1) (String.length t - i - 1))
    | None -> (t, "")) (tokens line) in
  let fixed = get kv "fixed" "1" = "1" in
  let n = nat_of_int (geti kv "n" 1) in
  let free = get kv "free" "0" = "1" in
  let sys = match get kv "sys" "take" with
    | "take" -> if free then TsTakeFine n else TsTake (fixed, n)
    | "merge" -> if free then TsMergeFine (fixed, n) else TsMerge n
    | "combine" -> if free then TsCombineFine (fixed, n) else TsCombine (fixed, n)
    | "takemerge" -> if free then TsTakeMergeFine (n, nat_of_int (geti kv "th" 2))
                     else TsTakeMerge (fixed, n, nat_of_int (geti kv "th" 2))
    | "takecombine" -> TsTakeCombine (fixed, n, nat_of_int (geti kv "th" 2))
    | s -> failwith ("unknown sys " ^ s) in
  let nth = geti kv "th" 2 in
  let qs t = List.map (fun x -> VN (nat_of_int x)) (parse_list (get kv (Printf.sprintf "q%d" (int_of_nat t)) "-")) in
  let fins t = match get kv (Printf.sprintf "f%d" (int_of_nat t)) "N" with
    | "T" -> FinTerm
    | "N" -> FinNone
    | e -> FinErr (nat_of_int (int_of_string (String.sub e 1 (String.length e - 1)))) in
  { tkv = kv; sys; nth; qs; fins; sched = parse_list (get kv "sched" "-") }

let str_tev ((t, e) : nat * tev) : string =
  let t = int_of_nat t in
  match e with
  | TBegin m -> Printf.sprintf "t%d:<dn0:%s" t (str_dmsg m)
  | TEnd -> Printf.sprintf "t%d:ret" t
  | TUp (i, m) -> Printf.sprintf "t%d:<up%d:%s" t (int_of_nat i) (str_umsg m)
  | TPanic -> Printf.sprintf "t%d:PANIC" t

let parse_tev (tok : string) : (nat * tev) option =
  (* "t<k>:..." *)
  match String.index_opt tok ':' with
  | Some i when tok.[0] = 't' ->
      let t = nat_of_int (int_of_string (String.sub tok 1 (i - 1))) in
      let rest = String.sub tok (i + 1) (String.length tok - i - 1) in
      if rest = "ret" then Some (t, TEnd)
      else if rest = "PANIC" then Some (t, TPanic)
      else if starts_with "<dn0:" rest then Some (t, TBegin (parse_dmsg (after "<dn0:" rest)))
      else if starts_with "<up" rest then
        let (a, b) = split2 (after "<up" rest) ':' in
        Some (t, TUp (nat_of_int (int_of_string a), parse_umsg (Option.get b)))
      else None
  | _ -> None

let str_tviol = function
  | TvOverDeliver -> "C19:OverDeliver" | TvUpTwice -> "C19:UpTwice"
  | TvSinkTermTwice -> "C18:SinkTermTwice" | TvNotCompleted -> "C19:NotCompleted"
  | TvGreetCount -> "C18:GreetCount" | TvBeforeGreet -> "C18:BeforeGreet"
  | TvDataLost -> "C18:DataLost" | TvDataForged -> "C18:DataForged" | TvOrder -> "C18:Order"
  | TvIncompleteTuple -> "C18:IncompleteTuple" | TvTermDuringData -> "C18:TermDuringData"
  | TvNoTerminal -> "C18:NoTerminal" | TvAfterTerminal -> "C18:AfterTerminal"
  | TvPanic -> "C18:Panic" | TvDisposedTwice -> "C18:DisposedTwice"

let tfuel = nat_of_int 400

let cmd_threads () =
  try
    while true do
      let line = input_line stdin in
      if String.trim line <> "" then begin
        let h = parse_theader line in
        let (tr, vs) = trun h.sys (nat_of_int h.nth) h.qs h.fins (List.map nat_of_int h.sched) tfuel in
        Printf.printf "%s || %s\n" (String.concat " " (List.map str_tev tr))
          (String.concat " " (List.map str_tviol vs))
      end
    done
  with End_of_file -> ()

let cmd_tmon () =
  try
    while true do
      let line = input_line stdin in
      if String.trim line <> "" then begin
        let (hs, ts) = split_bar line in
        let h = parse_theader hs in
        let tr = List.filter_map parse_tev (tokens ts) in
        print_endline (String.concat " " (List.map str_tviol (tcheck h.sys h.qs h.fins tr)))
      end
    done
  with End_of_file -> ()

(* every schedule, depth first; prints the violating complete schedules (up to a limit) *)
let cmd_texplore limit line =
  let h = parse_theader line in
  let total = ref 0 and bad = ref 0 in
  let rec go st (pref : int list) =
    let movable = List.filter (fun t -> not (tfinished st (nat_of_int t))) (List.init h.nth (fun t -> t)) in
    if movable = [] then begin
      incr total;
      let tr = ttrace st in
      let vs = tcheck h.sys h.qs h.fins tr in
      if vs <> [] then begin
        incr bad;
        if !bad <= limit then
          Printf.printf "BAD sched=%s || %s || %s\n"
            (String.concat "," (List.map string_of_int (List.rev pref)))
            (String.concat " " (List.map str_tev tr))
            (String.concat " " (List.map str_tviol vs))
      end
    end else
      List.iter (fun t -> go (tstep1 h.sys st (nat_of_int t)) (t :: pref)) movable in
  go (tinit h.sys h.qs h.fins) [];
  Printf.printf "schedules=%d violating=%d\n" !total !bad

let cmd_tgen seed count syss =
  rng_state := Int64.of_int seed;
  let syss = Array.of_list syss in
  for _ = 1 to count do
    let sys = syss.(rand (Array.length syss)) in
    let th = 2 + rand 2 in
    let n = match sys with "take" -> 1 + rand 3 | _ -> th in
    let buf = Buffer.create 80 in
    Buffer.add_string buf (Printf.sprintf "sys=%s fixed=1 n=%d th=%d" sys n th);
    let vc = ref 0 in
    let err_used = ref false in
    for t = 0 to th - 1 do
      let l = rand 4 in
      let q = List.init l (fun _ -> incr vc; string_of_int (10 * t + !vc mod 10)) in
      Buffer.add_string buf (Printf.sprintf " q%d=%s" t (if l = 0 then "-" else String.concat "," q));
      let f = if sys = "take" then "N"
        else match rand 8 with
          | 0 when not !err_used -> err_used := true; Printf.sprintf "E%d" (100 + t)
          | 1 -> "N"
          | _ -> "T" in
      Buffer.add_string buf (Printf.sprintf " f%d=%s" t f)
    done;
    let sl = rand 60 in
    Buffer.add_string buf (Printf.sprintf " sched=%s"
      (if sl = 0 then "-" else String.concat "," (List.init sl (fun _ -> string_of_int (rand th)))));
    print_endline (Buffer.contents buf)
  done

(* ---------- closed compositions ("trees") of crate operators, scripted sink (real crate only) ---------- *)

(* pull mode (C14): take ends by itself right after its nth item, i.e. its output gives Data AND the end
   for one Pull; a concat!/flatten above it reacts to that end by re-issuing the Pull, so the premise of
   C14 ("upstreams answer each Pull with exactly one Data or their end") does not hold at that interface.
   Such trees are outside the property's quantifier and are not generated in pull mode. *)
let rec gen_tree ?(notake = false) (depth : int) (pullonly : bool) : string =
  let leaf () =
    let l = rand 4 in
    Printf.sprintf "fi:%s" (if l = 0 then "-" else String.concat "," (List.init l (fun _ -> string_of_int (rand 10)))) in
  if depth <= 0 then leaf ()
  else
    let sub () = gen_tree ~notake (depth - 1 - rand 2) pullonly in
    let subnt () = gen_tree ~notake:(notake || pullonly) (depth - 1 - rand 2) pullonly in
    match rand (if pullonly then 9 else 12) with
    | 0 -> leaf ()
    | 1 -> Printf.sprintf "mp:%d:%d(%s)" (1 + rand 2) (rand 3) (sub ())
    | 2 -> let m = 1 + rand 3 in Printf.sprintf "fl:%d:%d(%s)" m (rand m) (sub ())
    | 3 when notake -> Printf.sprintf "mp:%d:%d(%s)" (1 + rand 2) (rand 3) (sub ())
    | 3 -> Printf.sprintf "tk:%d(%s)" (1 + rand 3) (sub ())
    | 4 -> Printf.sprintf "sk:%d(%s)" (rand 3) (sub ())
    | 5 -> Printf.sprintf "sc:%d:%d(%s)" (rand 2) (rand 3) (sub ())
    | 6 | 7 -> let k = 2 + rand 2 in Printf.sprintf "cc(%s)" (String.concat ";" (List.init k (fun _ -> subnt ())))
    | 8 -> Printf.sprintf "fm:%d(%s)" (rand 4) (subnt ())
    | 9 -> let k = 2 + rand 2 in Printf.sprintf "mg(%s)" (String.concat ";" (List.init k (fun _ -> sub ())))
    | _ -> Printf.sprintf "cb(%s;%s)" (sub ()) (sub ())

let cmd_gentree seed count pullonly =
  rng_state := Int64.of_int seed;
  for _ = 1 to count do
    let t = gen_tree (1 + rand 3) pullonly in
    let n = 3 + rand 14 in
    (* the sink: subscribe, then pulls / returns / at most one disposal; in pull mode at most one Pull per
       message received is enforced by the harness-independent rule: P only right after S or inside a handler *)
    let moves = Buffer.create 64 in
    Buffer.add_string moves "S0";
    let disposed = ref false in
    for _ = 1 to n do
      if not !disposed then
        match rand 10 with
        | 0 -> Buffer.add_string moves " T0"; disposed := true
        | 1 | 2 | 3 -> Buffer.add_string moves " r"
        | _ -> Buffer.add_string moves " P0"
      else Buffer.add_string moves " r"
    done;
    Printf.printf "op=tree tree=%s env=%s subs=1 | %s\n" t (if pullonly then "pull" else "std") (Buffer.contents moves)
  done



(* ---------- the conformant environment of a RECORDED trace (TraceEnv.v) ---------- *)

(* "header | crate trace": the candidate next moves that are enabled in the state the trace leaves
   (single subscription only), one line of move tokens *)
let cmd_extend () =
  try
    while true do
      let line = input_line stdin in
      if String.trim line <> "" then begin
        let (hs, ts) = split_bar line in
        let h = parse_header hs in
        let evs = List.filter_map parse_event (tokens ts) in
        let nsk = nat_of_int h.nsk in
        let vcount = ref 7 and ecount = ref 3 in
        let seen = Hashtbl.create 16 in
        let out = ref [] in
        if h.subs <= 1 then
          List.iter (fun (_, m) ->
            let key = str_move m in
            if not (Hashtbl.mem seen key) then begin
              Hashtbl.add seen key ();
              if enabled_on_trace h.sp h.pull nsk evs m then out := key :: !out
            end) (candidates h vcount ecount);
        print_endline (String.concat " " (List.rev !out))
      end
    done
  with End_of_file -> ()

(* "header | crate trace": is every environment event of the trace conformant in the state its prefix leaves? *)
let cmd_tconf () =
  try
    while true do
      let line = input_line stdin in
      if String.trim line <> "" then begin
        let (hs, ts) = split_bar line in
        let h = parse_header hs in
        let evs = List.filter_map parse_event (tokens ts) in
        print_endline (if h.subs <= 1 && conformant_trace h.sp h.pull (nat_of_int h.nsk) evs then "1" else "0")
      end
    done
  with End_of_file -> ()

(* ---------- linear pipelines as nets of component models (Chain.v / NetDriver.v) ---------- *)

(* "cc(tk:2(fi:1,2,3);mg(fi:4;mp:1:1(fi:5)))" -> nodes (children before parents, root last) and edges
   (child, parent, port); None if the tree uses a node kind that has no model here (cb, fm) *)
let parse_tree (t : string) : (spec list * ((nat * nat) * nat) list * int) option =
  let n = String.length t in
  let pos = ref 0 in
  let nodes = ref [] and edges = ref [] and count = ref 0 in
  let ok = ref true in
  let peek () = if !pos < n then t.[!pos] else '\000' in
  let ident () =
    let st = !pos in
    while (let c = peek () in c >= 'a' && c <= 'z') do incr pos done;
    String.sub t st (!pos - st) in
  let args () =
    let out = ref [] in
    while peek () = ':' do
      incr pos;
      let st = !pos in
      while (let c = peek () in (c >= '0' && c <= '9') || c = ',' || c = '-') do incr pos done;
      out := String.sub t st (!pos - st) :: !out
    done;
    List.rev !out in
  let add sp = nodes := sp :: !nodes; let i = !count in incr count; i in
  let rec expr () : int =
    let id = ident () in
    let a = args () in
    let num k = try int_of_string (List.nth a k) with _ -> 0 in
    let children () =
      let out = ref [] in
      if peek () = '(' then begin
        incr pos;
        let continue = ref true in
        while !continue do
          out := expr () :: !out;
          if peek () = ';' then incr pos else continue := false
        done;
        if peek () = ')' then incr pos else ok := false
      end;
      List.rev !out in
    let unary sp =
      match children () with
      | [c] -> let me = add sp in edges := ((nat_of_int c, nat_of_int me), O) :: !edges; me
      | _ -> ok := false; add sp in
    let nary mk =
      let cs = children () in
      let me = add (mk (nat_of_int (List.length cs))) in
      List.iteri (fun k c -> edges := ((nat_of_int c, nat_of_int me), nat_of_int k) :: !edges) cs;
      me in
    match id with
    | "fi" -> add (SpFromIter (List.map nat_of_int (parse_list (try List.nth a 0 with _ -> "-")), None))
    | "mp" -> unary (SpMap (nat_of_int (num 0), nat_of_int (num 1)))
    | "fl" -> unary (SpFilter (nat_of_int (max 1 (num 0)), nat_of_int (num 1)))
    | "tk" -> unary (SpTake (nat_of_int (num 0)))
    | "sk" -> unary (SpSkip (nat_of_int (num 0)))
    | "sc" -> unary (SpScan (nat_of_int (num 0), nat_of_int (num 1)))
    | "cc" -> nary (fun k -> SpConcat k)
    | "mg" -> nary (fun k -> SpMerge k)
    | _ -> ok := false; add SpForEach in
  let root = expr () in
  if !ok && !pos = n then Some (List.rev !nodes, List.rev !edges, root) else None

let chain_fuel = nat_of_int 20000

(* model of an operator-tree script: the sink's view of the net run *)
let cmd_chainrun () =
  try
    while true do
      let line = input_line stdin in
      if String.trim line <> "" then begin
        let (hs, ms) = split_bar line in
        let kv = List.map (fun t ->
          match String.index_opt t '=' with
          | Some i -> (String.sub t 0 i, String.sub t (i + 1) (String.length t - i - 1))
          | None -> (t, "")) (tokens hs) in
        match parse_tree (get kv "tree" "fi:-") with
        | None -> print_endline "NOMODEL"
        | Some (sps, es, root) ->
            let rootn = nat_of_int root in
            let net = ref (tree_net sps) in
            List.iter (fun t ->
              let (_, m) = parse_move t in
              let (n', _) = tree_step es rootn chain_fuel !net m in
              net := n') (tokens ms);
            print_string (String.concat " " (List.map str_event (tree_trace rootn !net)));
            print_string " || ";
            print_endline (String.concat " " (List.map str_viol (tree_viols rootn !net)))
      end
    done
  with End_of_file -> ()

let rec gen_model_tree (depth : int) : string =
  let leaf () =
    let l = rand 4 in
    Printf.sprintf "fi:%s" (if l = 0 then "-" else String.concat "," (List.init l (fun _ -> string_of_int (rand 10)))) in
  if depth <= 0 then leaf ()
  else
    let sub () = gen_model_tree (depth - 1 - rand 2) in
    match rand 9 with
    | 0 -> leaf ()
    | 1 -> Printf.sprintf "mp:%d:%d(%s)" (1 + rand 2) (rand 3) (sub ())
    | 2 -> let m = 1 + rand 3 in Printf.sprintf "fl:%d:%d(%s)" m (rand m) (sub ())
    | 3 -> Printf.sprintf "tk:%d(%s)" (1 + rand 3) (sub ())
    | 4 -> Printf.sprintf "sk:%d(%s)" (rand 3) (sub ())
    | 5 -> Printf.sprintf "sc:%d:%d(%s)" (rand 2) (rand 3) (sub ())
    | 6 | 7 -> let k = 1 + rand 3 in Printf.sprintf "cc(%s)" (String.concat ";" (List.init k (fun _ -> sub ())))
    | _ -> let k = 1 + rand 3 in Printf.sprintf "mg(%s)" (String.concat ";" (List.init k (fun _ -> sub ())))

(* random operator trees (from_iter leaves; map, filter, scan, take, skip, concat!, merge! nodes) with sink
   scripts every move of which is enabled in the net model *)
let cmd_genchain seed count =
  rng_state := Int64.of_int seed;
  for _ = 1 to count do
    let t = gen_model_tree (1 + rand 4) in
    match parse_tree t with
    | None -> ()
    | Some (sps, es, root) ->
        let rootn = nat_of_int root in
        let net = ref (tree_net sps) in
        let moves = ref [] in
        let n = 3 + rand 18 in
        for k = 1 to n do
          let cands = [| "S0"; "P0"; "P0"; "P0"; "r"; "r"; "T0"; "E0/100" |] in
          let tok = if k = 1 then "S0" else cands.(rand (Array.length cands)) in
          let tok = if tok = "T0" && rand 3 <> 0 then "P0" else tok in
          let tok = if tok = "E0/100" && rand 4 <> 0 then "r" else tok in
          let (_, m) = parse_move tok in
          let (n', ok) = tree_step es rootn chain_fuel !net m in
          if ok then (net := n'; moves := tok :: !moves)
        done;
        Printf.printf "op=tree tree=%s env=std subs=1 chain=1 | %s\n" t (String.concat " " (List.rev !moves))
  done

let () =
  match Array.to_list Sys.argv with
  | _ :: "gentree" :: seed :: count :: rest -> cmd_gentree (int_of_string seed) (int_of_string count) (rest = ["pull"])
  | _ :: "threads" :: _ -> cmd_threads ()
  | _ :: "tmon" :: _ -> cmd_tmon ()
  | _ :: "texplore" :: limit :: rest -> cmd_texplore (int_of_string limit) (String.concat " " rest)
  | _ :: "tgen" :: seed :: count :: syss -> cmd_tgen (int_of_string seed) (int_of_string count) syss
  | _ :: "pipe" :: _ -> cmd_pipe ()
  | _ :: "netpipe" :: _ -> cmd_netpipe ()
  | _ :: "genpipe" :: seed :: count :: _ -> cmd_genpipe (int_of_string seed) (int_of_string count)
  | _ :: "run" :: _ -> cmd_run ()
  | _ :: "conf" :: _ -> cmd_conf ()
  | _ :: "extend" :: _ -> cmd_extend ()
  | _ :: "tconf" :: _ -> cmd_tconf ()
  | _ :: "chainrun" :: _ -> cmd_chainrun ()
  | _ :: "genchain" :: seed :: count :: _ -> cmd_genchain (int_of_string seed) (int_of_string count)
  | _ :: "mon" :: _ -> cmd_mon ()
  | _ :: "gen" :: seed :: count :: ops -> cmd_gen (int_of_string seed) (int_of_string count) ops
  | _ :: "enum" :: depth :: rest -> cmd_enum (int_of_string depth) (String.concat " " rest)
  | _ -> prerr_endline "usage: driver run|mon|gen SEED COUNT OPS..|enum DEPTH HEADER"; exit 2
