//! Correspondence harness: runs move scripts against the real callbag crate
//! (public API only) and prints the canonical event trace of each script, in
//! exactly the format the extracted Coq model prints (see driver/main.ml).
//!
//! stdin : one script per line, "<header> | <moves>"
//! stdout: one trace per line
//!
//! Everything is single-threaded here (the thread experiments live in
//! threads.rs); the callbag closures have to be Send + Sync, so they capture
//! only integers and reach the per-script world through a thread-local.

use std::cell::RefCell;
use std::collections::HashMap;
use std::error::Error;
use std::fmt;
use std::future::Future;
use std::io::{self, BufRead, Write};
use std::panic::{catch_unwind, AssertUnwindSafe};
use std::pin::Pin;
use std::rc::Rc;
use std::sync::atomic::{AtomicBool, Ordering};
use std::sync::Arc;
use std::task::{Context, Poll, RawWaker, RawWakerVTable, Waker};
use std::time::Duration;

use async_executors::Timer;
use async_nursery::{Nurse, NurseErr};
use callbag::{
    combine, concat, filter, flatten, for_each, from_iter, interval, map, merge, scan, share,
    skip, take, Message, Sink, Source,
};
use futures::future::BoxFuture;
use futures::task::FutureObj;
use never::Never;

mod pipeline;
mod threads;
mod tree;

// ---------------------------------------------------------------- script types

#[derive(Clone, Debug)]
pub enum UMsg {
    P,
    T,
    E(u64),
}

#[derive(Clone, Debug)]
pub enum DMsg {
    H,
    D(u64),
    T,
    E(u64),
}

#[derive(Clone, Debug)]
pub enum Inp {
    Sub(usize, u64),
    Up(usize, UMsg),
    Dn(usize, DMsg),
    Tick(usize),
}

#[derive(Clone, Debug)]
pub enum Move {
    In(usize, Inp, String),
    Ret,
}

#[derive(Debug)]
pub struct TestErr(pub u64);
impl fmt::Display for TestErr {
    fn fmt(&self, f: &mut fmt::Formatter<'_>) -> fmt::Result {
        write!(f, "TestErr({})", self.0)
    }
}
impl Error for TestErr {}

pub type DynErr = Arc<dyn Error + Send + Sync + 'static>;

// ---------------------------------------------------------------- the world

struct Task {
    fut: Pin<Box<dyn Future<Output = ()>>>,
}

#[derive(Default)]
struct World {
    script: Vec<Move>,
    pos: usize,
    out: Vec<String>,
    recording: bool,
    subs: usize,
    depth: usize,
    ctx: Vec<usize>,
    panicked: bool,
    /// talkback handed to sink (sub, s), wrapped
    sink_tb: HashMap<(usize, usize), Rc<dyn Fn(UMsg)>>,
    /// handler handed to upstream puppet (sub, port), wrapped
    up_handler: HashMap<(usize, usize), Rc<dyn Fn(DMsg)>>,
    errs: HashMap<u64, DynErr>,
    /// interval: what the next nurse_obj call answers (0 ok, 1 Spawn, 2 Closed)
    next_spawn: u64,
    tasks: HashMap<usize, Task>,
    sleep_flag: HashMap<usize, Arc<AtomicBool>>,
    subscribe: Option<Rc<dyn Fn(usize, usize, u64)>>,
    /// late=1 scripts: peers act after the protocol is over for them
    late: bool,
    /// the sink id whose subscription move is being performed (alias mode of share)
    subscribing: Option<usize>,
    /// talkback moves still to come in the script, per (subscription, sink): a sink that will not use
    /// its talkback again drops it (at once if it never uses it) - no operator may depend on the sink
    /// keeping the talkback alive
    ups_left: HashMap<(usize, usize), usize>,
    /// subscription moves still to come in the script: after the last one the harness drops the
    /// source value under test (as a caller that subscribes a temporary does), so every subscription
    /// has to live on what its own closures own
    subs_left: usize,
    /// number of calls of user closures (map's f, filter's predicate, scan's reducer)
    evals: u64,
    /// copies of user closures: next identity, and the subscriptions each copy ran under
    next_inst: u64,
    inst_subs: HashMap<u64, std::collections::HashSet<usize>>,
    /// flatten: one puppet (one `Arc`) per inner id modulo 100, and the id it was last emitted as
    inner_cache: HashMap<u64, Arc<Source<usize>>>,
    inner_emitting: Vec<u64>,
    /// tree mode (no model to vet the script): the harness itself keeps the scripted sink conformant
    tree_mode: bool,
    tree_pull: bool,
    sink_live: bool,
    sink_credit: u64,
}

thread_local! {
    static W: RefCell<World> = RefCell::new(World::default());
}

fn w<R>(f: impl FnOnce(&mut World) -> R) -> R {
    W.with(|w| f(&mut w.borrow_mut()))
}

fn count_eval() {
    w(|w| w.evals += 1)
}

/// identity of one copy of a user closure: `Clone` yields a NEW identity (a closure that captures its
/// own state by value gets a pristine copy per clone), and every call records under which subscription
/// the copy ran.  The operators clone their closure once per subscription, so no copy may run under two.
#[derive(Debug)]
pub struct Inst(u64);
impl Inst {
    pub fn fresh() -> Inst {
        Inst(w(|w| {
            w.next_inst += 1;
            w.next_inst
        }))
    }
    pub fn touch(&self) {
        let sub = cur_ctx();
        let id = self.0;
        w(|w| {
            w.inst_subs.entry(id).or_default().insert(sub);
        })
    }
}
impl Clone for Inst {
    fn clone(&self) -> Inst {
        Inst::fresh()
    }
}

fn cur_ctx() -> usize {
    w(|w| *w.ctx.last().unwrap_or(&0))
}

fn rec_sub(sub: usize, tok: String) {
    w(|w| {
        if w.recording {
            if w.subs > 1 {
                w.out.push(format!("{}:{}", sub, tok));
            } else {
                w.out.push(tok);
            }
        }
    })
}

fn rec(tok: String) {
    let sub = cur_ctx();
    rec_sub(sub, tok)
}

fn err_arc(id: u64) -> DynErr {
    w(|w| {
        w.errs
            .entry(id)
            .or_insert_with(|| Arc::new(TestErr(id)) as DynErr)
            .clone()
    })
}

fn err_id(e: &DynErr) -> String {
    let known = w(|w| {
        for (id, a) in w.errs.iter() {
            if Arc::ptr_eq(a, e) {
                return Some(*id);
            }
        }
        None
    });
    if let Some(id) = known {
        return format!("E{}", id);
    }
    if let Some(ne) = e.downcast_ref::<NurseErr>() {
        return match ne {
            NurseErr::Spawn => "E1".to_string(),
            NurseErr::Closed => "E2".to_string(),
        };
    }
    if let Some(te) = e.downcast_ref::<TestErr>() {
        // same id but not the same Arc: the error was re-created, not relayed
        return format!("E?copy{}", te.0);
    }
    "E?".to_string()
}

/// The environment acts: perform script moves until a `r` (return) move, the
/// end of the script, or a panic.
fn run_moves() {
    loop {
        let mv = w(|w| {
            if w.panicked {
                return None;
            }
            if w.pos >= w.script.len() {
                // script exhausted: everything unwinds silently
                w.recording = false;
                return None;
            }
            let m = w.script[w.pos].clone();
            w.pos += 1;
            Some(m)
        });
        match mv {
            None => return,
            Some(Move::Ret) => {
                if w(|w| w.depth) > 0 {
                    return;
                }
            }
            Some(Move::In(sub, inp, tok)) => perform(sub, inp, tok),
        }
    }
}

/// a peer handler was entered by the component: the call event, the
/// environment's reaction, the return event
fn peer_called(sub: usize, tok: String) {
    rec_sub(sub, tok);
    w(|w| {
        w.depth += 1;
        w.ctx.push(sub)
    });
    run_moves();
    w(|w| {
        w.depth -= 1;
        w.ctx.pop();
    });
    rec_sub(sub, "ret".to_string());
}

fn perform(sub: usize, inp: Inp, tok: String) {
    if let Inp::Up(_, ref m) = inp {
        let skip = w(|w| {
            w.tree_mode
                && (!w.sink_live || (w.tree_pull && matches!(m, UMsg::P) && w.sink_credit == 0))
        });
        if skip {
            return; // a conformant sink does not make this move: it is dropped from the script
        }
    }
    rec_sub(sub, format!(">{}", tok));
    w(|w| w.ctx.push(sub));
    match inp {
        Inp::Sub(s, aux) => {
            let f = w(|w| {
                w.next_spawn = aux;
                w.subs_left = w.subs_left.saturating_sub(1);
                if w.subs_left == 0 {
                    w.subscribe.take()
                } else {
                    w.subscribe.clone()
                }
            });
            if let Some(f) = f {
                w(|w| w.subscribing = Some(s));
                f(sub, s, aux);
                // `f` - and with it, after the last subscription move, the source value - is dropped here
            }
        }
        Inp::Up(s, m) => {
            let tb = w(|w| {
                let left = w.ups_left.entry((sub, s)).or_insert(0);
                *left = left.saturating_sub(1);
                if *left == 0 {
                    w.sink_tb.remove(&(sub, s))
                } else {
                    w.sink_tb.get(&(sub, s)).cloned()
                }
            });
            if let Some(tb) = tb {
                if matches!(m, UMsg::T | UMsg::E(_)) {
                    w(|w| w.sink_live = false);
                } else {
                    w(|w| w.sink_credit = w.sink_credit.saturating_sub(1));
                }
                tb(m);
            }
        }
        Inp::Dn(i, m) => {
            let h = w(|w| w.up_handler.get(&(sub, i)).cloned());
            if let Some(h) = h {
                h(m);
            }
        }
        Inp::Tick(_s) => tick(sub),
    }
    w(|w| {
        w.ctx.pop();
    });
    rec_sub(sub, "done".to_string());
}

// ---------------------------------------------------------------- puppets

pub trait Show {
    fn show(&self) -> String;
}
impl Show for usize {
    fn show(&self) -> String {
        format!("{}", self)
    }
}
impl Show for (usize,) {
    fn show(&self) -> String {
        format!("({})", self.0)
    }
}
impl Show for (usize, usize) {
    fn show(&self) -> String {
        format!("({},{})", self.0, self.1)
    }
}
impl Show for (usize, usize, usize) {
    fn show(&self) -> String {
        format!("({},{},{})", self.0, self.1, self.2)
    }
}
macro_rules! show_tuple {
    ($($t:ty : $i:tt),+) => {
        impl Show for ($($t,)+) {
            fn show(&self) -> String {
                let v: Vec<String> = vec![$(format!("{}", self.$i)),+];
                format!("({})", v.join(","))
            }
        }
    };
}
show_tuple!(usize:0, usize:1, usize:2, usize:3);
show_tuple!(usize:0, usize:1, usize:2, usize:3, usize:4);
show_tuple!(usize:0, usize:1, usize:2, usize:3, usize:4, usize:5);
show_tuple!(usize:0, usize:1, usize:2, usize:3, usize:4, usize:5, usize:6);
show_tuple!(usize:0, usize:1, usize:2, usize:3, usize:4, usize:5, usize:6, usize:7);
show_tuple!(usize:0, usize:1, usize:2, usize:3, usize:4, usize:5, usize:6, usize:7, usize:8);
show_tuple!(usize:0, usize:1, usize:2, usize:3, usize:4, usize:5, usize:6, usize:7, usize:8, usize:9);
show_tuple!(usize:0, usize:1, usize:2, usize:3, usize:4, usize:5, usize:6, usize:7, usize:8, usize:9, usize:10);
show_tuple!(usize:0, usize:1, usize:2, usize:3, usize:4, usize:5, usize:6, usize:7, usize:8, usize:9, usize:10, usize:11);

/// the recording sink `s` of subscription `sub`
fn mk_sink<O: Show + 'static>(sub: usize, s: usize) -> Arc<Sink<O>> {
    mk_sink_as::<O>(sub, Some(s))
}

/// `fixed = None`: ONE sink object that stands for every sink id of the script (share: the same `Arc`
/// attached several times).  A greeting belongs to the sink id whose subscription move is being
/// performed; other messages cannot be told apart and are recorded for "X" - the model's trace is
/// compared with its sink ids erased.
fn mk_sink_as<O: Show + 'static>(sub: usize, fixed: Option<usize>) -> Arc<Sink<O>> {
    Arc::new(
        (move |msg: Message<O, Never>| {
            let s = fixed.unwrap_or_else(|| w(|w| w.subscribing.unwrap_or(0)));
            let lbl = match fixed {
                Some(s) => format!("{}", s),
                None => "X".to_string(),
            };
            let tok = match msg {
                Message::Handshake(tb) => {
                    let tb: Arc<Source<O>> = tb;
                    let wrapped: Rc<dyn Fn(UMsg)> = Rc::new(move |m: UMsg| match m {
                        UMsg::P => tb(Message::Pull),
                        UMsg::T => tb(Message::Terminate),
                        UMsg::E(id) => tb(Message::Error(err_arc(id))),
                    });
                    w(|w| {
                        if w.tree_mode || w.ups_left.get(&(sub, s)).copied().unwrap_or(0) > 0 {
                            w.sink_tb.insert((sub, s), wrapped);
                        }
                        w.sink_live = true;
                        w.sink_credit += 1;
                    });
                    format!("<dn{}:H", lbl)
                }
                Message::Data(v) => {
                    w(|w| w.sink_credit += 1);
                    format!("<dn{}:D{}", lbl, v.show())
                }
                Message::Terminate => {
                    w(|w| w.sink_live = false);
                    format!("<dn{}:T", lbl)
                }
                Message::Error(e) => {
                    w(|w| w.sink_live = false);
                    format!("<dn{}:{}", lbl, err_id(&e))
                }
                Message::Pull => format!("<dn{}:?Pull", lbl),
            };
            peer_called(sub, tok);
        })
        .into(),
    )
}

/// a source that has ended, or was told to stop, lets go of the sink it was given (conformant scripts
/// only: scripts with late moves use the handler after the end on purpose)
fn release_handler(sub: usize, port: usize) {
    w(|w| {
        if !w.late {
            w.up_handler.remove(&(sub, port));
        }
    })
}

/// the talkback puppet source `port` hands to the component when it greets
fn mk_up_talkback<T: 'static>(sub: usize, port: usize) -> Arc<Source<T>> {
    Arc::new(
        (move |msg: Message<Never, T>| {
            let stop = matches!(msg, Message::Terminate | Message::Error(_));
            let tok = match msg {
                Message::Pull => format!("<up{}:P", port),
                Message::Terminate => format!("<up{}:T", port),
                Message::Error(e) => format!("<up{}:{}", port, err_id(&e)),
                Message::Handshake(_) => format!("<up{}:?Handshake", port),
                Message::Data(_) => format!("<up{}:?Data", port),
            };
            peer_called(sub, tok);
            if stop {
                release_handler(sub, port);
            }
        })
        .into(),
    )
}

/// puppet source number `port`; `conv` turns a script integer into a datum
fn mk_source<T: 'static>(port: usize, conv: fn(u64) -> T) -> Arc<Source<T>> {
    Arc::new(
        (move |msg: Message<Never, T>| {
            if let Message::Handshake(h) = msg {
                let sub = cur_ctx();
                let h: Arc<Sink<T>> = h;
                let wrapped: Rc<dyn Fn(DMsg)> = Rc::new(move |m: DMsg| match m {
                    DMsg::H => h(Message::Handshake(mk_up_talkback::<T>(sub, port))),
                    DMsg::D(v) => {
                        let emitting = w(|w| w.inner_emitting.len());
                        let d = conv(v);
                        h(Message::Data(d));
                        w(|w| w.inner_emitting.truncate(emitting));
                    }
                    DMsg::T => {
                        h(Message::Terminate);
                        release_handler(sub, port);
                    }
                    DMsg::E(id) => {
                        h(Message::Error(err_arc(id)));
                        release_handler(sub, port);
                    }
                });
                w(|w| w.up_handler.insert((sub, port), wrapped));
                peer_called(sub, format!("<sub{}", port));
            } else {
                rec(format!("<src{}:?notHandshake", port));
            }
        })
        .into(),
    )
}

fn num(v: u64) -> usize {
    v as usize
}

/// flatten: the outer datum `k` is the inner puppet source on port k+1.  Data k and k+100, k+200, ..
/// are the SAME source value (one `Arc`) emitted again: flatten must treat every emission as a new
/// subscription, so the puppet presents its j-th subscription as port k+100j+1 and the model (which only
/// knows fresh inner sources) sees the same history with distinct ids.
fn inner_src(k: u64) -> Arc<Source<usize>> {
    let base = k % 100;
    // the emission is in progress until the outer puppet's delivery returns (mk_source pops it)
    let cached = w(|w| {
        w.inner_emitting.push(k);
        w.inner_cache.get(&base).cloned()
    });
    if let Some(a) = cached {
        return a;
    }
    let a: Arc<Source<usize>> = Arc::new(
        (move |msg: Message<Never, usize>| {
            if let Message::Handshake(h) = msg {
                let sub = cur_ctx();
                // flatten subscribes an inner source during the delivery of the emission that carried it:
                // the innermost emission of this source value still in progress names this subscription
                let port = w(|w| {
                    w.inner_emitting.iter().rev().find(|k| **k % 100 == base).copied().unwrap_or(base)
                }) as usize
                    + 1;
                let h: Arc<Sink<usize>> = h;
                let wrapped: Rc<dyn Fn(DMsg)> = Rc::new(move |m: DMsg| match m {
                    DMsg::H => h(Message::Handshake(mk_up_talkback::<usize>(sub, port))),
                    DMsg::D(v) => h(Message::Data(num(v))),
                    DMsg::T => {
                        h(Message::Terminate);
                        release_handler(sub, port);
                    }
                    DMsg::E(id) => {
                        h(Message::Error(err_arc(id)));
                        release_handler(sub, port);
                    }
                });
                w(|w| w.up_handler.insert((sub, port), wrapped));
                peer_called(sub, format!("<sub{}", port));
            } else {
                rec(format!("<src{}:?notHandshake", base + 1));
            }
        })
        .into(),
    );
    w(|w| w.inner_cache.insert(base, Arc::clone(&a)));
    a
}

// ---------------------------------------------------------------- from_iter's iterator

#[derive(Clone, Debug)]
pub struct LogIter {
    xs: Arc<Vec<u64>>,
    inf: Option<u64>,
    pos: usize,
}
impl Iterator for LogIter {
    type Item = usize;
    fn next(&mut self) -> Option<usize> {
        let r = if self.pos < self.xs.len() {
            Some(self.xs[self.pos] as usize)
        } else {
            self.inf.map(|b| (b as usize) + (self.pos - self.xs.len()))
        };
        self.pos += 1;
        match r {
            Some(v) => rec(format!("next:{}", v)),
            None => rec("next:-".to_string()),
        }
        r
    }
    // an honest size_hint, as the iterators of Vec, arrays and ranges have: what is left is known exactly
    // (an operator that trusted it instead of calling next() would show in the number of next() calls)
    fn size_hint(&self) -> (usize, Option<usize>) {
        match self.inf {
            Some(_) => (usize::MAX, None),
            None => {
                // exact for inputs of even length, honest but loose (lower bound 0) for odd ones - what
                // a filtered or flat-mapped iterator reports
                let rem = self.xs.len().saturating_sub(self.pos);
                (if self.xs.len() % 2 == 0 { rem } else { 0 }, Some(rem))
            }
        }
    }
}

// ---------------------------------------------------------------- interval's nursery and timer

#[derive(Clone, Debug)]
pub struct MockNursery;

impl Nurse<()> for MockNursery {
    fn nurse_obj(&self, fut: FutureObj<'static, ()>) -> Result<(), NurseErr> {
        let sub = cur_ctx();
        let ans = w(|w| w.next_spawn);
        match ans {
            0 => {
                w(|w| {
                    w.tasks.insert(sub, Task { fut: Box::pin(fut) });
                });
                rec_sub(sub, "spawn0:ok".to_string());
                Ok(())
            }
            1 => {
                rec_sub(sub, "spawn0:err".to_string());
                Err(NurseErr::Spawn)
            }
            _ => {
                rec_sub(sub, "spawn0:err".to_string());
                Err(NurseErr::Closed)
            }
        }
    }
}

struct SleepFut(Arc<AtomicBool>);
impl Future for SleepFut {
    type Output = ();
    fn poll(self: Pin<&mut Self>, _cx: &mut Context<'_>) -> Poll<()> {
        if self.0.load(Ordering::SeqCst) {
            Poll::Ready(())
        } else {
            Poll::Pending
        }
    }
}

impl Timer for MockNursery {
    fn sleep(&self, _dur: Duration) -> BoxFuture<'static, ()> {
        // called while the task of the current context is being polled
        let sub = cur_ctx();
        let flag = Arc::new(AtomicBool::new(false));
        w(|w| w.sleep_flag.insert(sub, flag.clone()));
        Box::pin(SleepFut(flag))
    }
}

fn noop_waker() -> Waker {
    fn clone(_: *const ()) -> RawWaker {
        RawWaker::new(std::ptr::null(), &VTABLE)
    }
    fn noop(_: *const ()) {}
    static VTABLE: RawWakerVTable = RawWakerVTable::new(clone, noop, noop, noop);
    unsafe { Waker::from_raw(RawWaker::new(std::ptr::null(), &VTABLE)) }
}

fn poll_task(sub: usize) -> bool {
    // take the task out of the world while it runs (it calls back into us)
    let t = w(|w| w.tasks.remove(&sub));
    if let Some(mut t) = t {
        let waker = noop_waker();
        let mut cx = Context::from_waker(&waker);
        match t.fut.as_mut().poll(&mut cx) {
            Poll::Ready(()) => {
                rec_sub(sub, "exit0".to_string());
                false
            }
            Poll::Pending => {
                w(|w| w.tasks.insert(sub, t));
                true
            }
        }
    } else {
        false
    }
}

/// one period elapses for the task of subscription `sub`
fn tick(sub: usize) {
    if !w(|w| w.tasks.contains_key(&sub)) {
        return;
    }
    if !w(|w| w.sleep_flag.contains_key(&sub)) {
        // first poll: run to the first await
        if !poll_task(sub) {
            return;
        }
    }
    if let Some(f) = w(|w| w.sleep_flag.remove(&sub)) {
        f.store(true, Ordering::SeqCst);
    }
    poll_task(sub);
}

// ---------------------------------------------------------------- building the component under test

pub type Kv = HashMap<String, String>;

pub fn geti(kv: &Kv, k: &str, d: u64) -> u64 {
    kv.get(k).and_then(|s| s.parse().ok()).unwrap_or(d)
}

pub fn parse_list(s: &str) -> Vec<u64> {
    if s == "-" || s.is_empty() {
        vec![]
    } else {
        s.split(',').map(|x| x.parse().unwrap()).collect()
    }
}

fn sub_to<O: Show + 'static>(out: Arc<Source<O>>) -> Rc<dyn Fn(usize, usize, u64)> {
    Rc::new(move |sub, s, _aux| out(Message::Handshake(mk_sink::<O>(sub, s))))
}

fn build(kv: &Kv) -> Rc<dyn Fn(usize, usize, u64)> {
    let op = kv.get("op").map(|s| s.as_str()).unwrap_or("?");
    let src0 = || mk_source::<usize>(0, num);
    match op {
        "map" => {
            let a = geti(kv, "a", 1) as usize;
            let b = geti(kv, "b", 0) as usize;
            let inst = Inst::fresh();
            sub_to(Arc::new(map(move |x: usize| {
                inst.touch();
                count_eval();
                a * x + b
            })(src0())))
        }
        "filter" => {
            let m = geti(kv, "m", 2) as usize;
            let r = geti(kv, "r", 0) as usize;
            let inst = Inst::fresh();
            sub_to(Arc::new(filter(move |x: &usize| {
                inst.touch();
                count_eval();
                *x % m == r
            })(src0())))
        }
        "scan" => {
            let k = geti(kv, "k", 0);
            let seed = geti(kv, "seed", 0) as usize;
            let inst = Inst::fresh();
            sub_to(Arc::new(scan(
                move |acc: usize, x: usize| {
                    inst.touch();
                    count_eval();
                    match k {
                        0 => acc + x,
                        1 => std::cmp::max(acc, x),
                        _ => 2 * acc + x,
                    }
                },
                seed,
            )(src0())))
        }
        "take" => sub_to(Arc::new(take(geti(kv, "n", 1) as usize)(src0()))),
        "skip" => sub_to(Arc::new(skip(geti(kv, "n", 1) as usize)(src0()))),
        "from_iter" => {
            let xs = parse_list(kv.get("xs").map(|s| s.as_str()).unwrap_or("-"));
            let inf = match kv.get("inf").map(|s| s.as_str()) {
                None | Some("-") => None,
                Some(b) => Some(b.parse::<u64>().unwrap()),
            };
            let it = LogIter {
                xs: Arc::new(xs),
                inf,
                pos: 0,
            };
            sub_to(Arc::new(from_iter(it)))
        }
        "for_each" => {
            let src = src0();
            let fe = for_each(move |x: usize| rec(format!("user:{}", x)));
            Rc::new(move |_sub, _s, _aux| fe(Arc::clone(&src)))
        }
        "merge" => {
            let n = geti(kv, "n", 2) as usize;
            let srcs: Vec<Arc<Source<usize>>> = (0..n).map(|i| mk_source::<usize>(i, num)).collect();
            sub_to(Arc::new(merge(srcs.into_boxed_slice())))
        }
        "concat" => {
            let n = geti(kv, "n", 2) as usize;
            let srcs: Vec<Arc<Source<usize>>> = (0..n).map(|i| mk_source::<usize>(i, num)).collect();
            sub_to(Arc::new(concat(srcs.into_boxed_slice())))
        }
        "combine" => {
            let n = geti(kv, "n", 2) as usize;
            let s = |i: usize| mk_source::<usize>(i, num);
            match n {
                1 => sub_to(Arc::new(combine((s(0),)))),
                2 => sub_to(Arc::new(combine((s(0), s(1))))),
                3 => sub_to(Arc::new(combine((s(0), s(1), s(2))))),
                4 => sub_to(Arc::new(combine((s(0), s(1), s(2), s(3))))),
                5 => sub_to(Arc::new(combine((s(0), s(1), s(2), s(3), s(4))))),
                6 => sub_to(Arc::new(combine((s(0), s(1), s(2), s(3), s(4), s(5))))),
                7 => sub_to(Arc::new(combine((s(0), s(1), s(2), s(3), s(4), s(5), s(6))))),
                8 => sub_to(Arc::new(combine((s(0), s(1), s(2), s(3), s(4), s(5), s(6), s(7))))),
                9 => sub_to(Arc::new(combine((s(0), s(1), s(2), s(3), s(4), s(5), s(6), s(7), s(8))))),
                10 => sub_to(Arc::new(combine((s(0), s(1), s(2), s(3), s(4), s(5), s(6), s(7), s(8), s(9))))),
                11 => sub_to(Arc::new(combine((s(0), s(1), s(2), s(3), s(4), s(5), s(6), s(7), s(8), s(9), s(10))))),
                _ => sub_to(Arc::new(combine((s(0), s(1), s(2), s(3), s(4), s(5), s(6), s(7), s(8), s(9), s(10), s(11))))),
            }
        }
        "flatten" => {
            let outer: Arc<Source<Arc<Source<usize>>>> = mk_source::<Arc<Source<usize>>>(0, inner_src);
            sub_to(Arc::new(flatten(outer)))
        }
        "share" => {
            let out: Arc<Source<usize>> = Arc::new(share(src0()));
            if geti(kv, "alias", 0) == 1 {
                // every sink id of the script is the same sink object, attached again and again
                let one: RefCell<Option<Arc<Sink<usize>>>> = RefCell::new(None);
                Rc::new(move |sub, _s, _aux| {
                    let sink = one.borrow_mut().get_or_insert_with(|| mk_sink_as::<usize>(sub, None)).clone();
                    out(Message::Handshake(sink))
                })
            } else {
                sub_to(out)
            }
        }
        "interval" => sub_to(Arc::new(interval(Duration::from_millis(1000), MockNursery))),
        "tree" => sub_to(tree::build_tree(kv.get("tree").map(|s| s.as_str()).unwrap_or("fi:-"))),
        other => panic!("unknown op {}", other),
    }
}

// ---------------------------------------------------------------- parsing

pub fn parse_header(s: &str) -> Kv {
    let mut kv = HashMap::new();
    for t in s.split_whitespace() {
        if let Some((k, v)) = t.split_once('=') {
            kv.insert(k.to_string(), v.to_string());
        }
    }
    kv
}

fn parse_move(t: &str) -> Move {
    let (sub, t) = {
        let b = t.as_bytes();
        if b.len() > 2 && b[1] == b':' && b[0].is_ascii_digit() {
            ((b[0] - b'0') as usize, &t[2..])
        } else {
            (0, t)
        }
    };
    if t == "r" {
        return Move::Ret;
    }
    let kind = t.as_bytes()[0] as char;
    let body = &t[1..];
    let (a, b) = match body.split_once('/') {
        Some((a, b)) => (a, Some(b)),
        None => (body, None),
    };
    let ai: usize = a.parse().unwrap();
    let bi = || -> u64 { b.unwrap().parse().unwrap() };
    let inp = match kind {
        'S' => Inp::Sub(ai, b.map(|x| x.parse().unwrap()).unwrap_or(0)),
        'P' => Inp::Up(ai, UMsg::P),
        'T' => Inp::Up(ai, UMsg::T),
        'E' => Inp::Up(ai, UMsg::E(bi())),
        'h' => Inp::Dn(ai, DMsg::H),
        'd' => Inp::Dn(ai, DMsg::D(bi())),
        't' => Inp::Dn(ai, DMsg::T),
        'e' => Inp::Dn(ai, DMsg::E(bi())),
        'k' => Inp::Tick(ai),
        _ => panic!("bad move {}", t),
    };
    Move::In(sub, inp, t.to_string())
}

fn run_script(line: &str) -> String {
    let (hs, ms) = match line.split_once('|') {
        Some((a, b)) => (a, b),
        None => (line, ""),
    };
    let kv = parse_header(hs);
    let moves: Vec<Move> = ms.split_whitespace().map(parse_move).collect();
    W.with(|w| *w.borrow_mut() = World::default());
    let n_subs = moves.iter().filter(|m| matches!(m, Move::In(_, Inp::Sub(_, _), _))).count();
    let mut ups: HashMap<(usize, usize), usize> = HashMap::new();
    for m in &moves {
        if let Move::In(sub, Inp::Up(s, _), _) = m {
            *ups.entry((*sub, *s)).or_insert(0) += 1;
        }
    }
    w(|w| {
        w.script = moves;
        w.subs_left = n_subs;
        w.late = geti(&kv, "late", 0) == 1;
        w.ups_left = ups;
        w.recording = true;
        w.subs = geti(&kv, "subs", 1) as usize;
        w.tree_mode = kv.get("op").map(|s| s == "tree").unwrap_or(false);
        w.tree_pull = kv.get("env").map(|s| s == "pull").unwrap_or(false);
    });
    let subscribe = build(&kv);
    w(|w| w.subscribe = Some(subscribe));
    // top level: the environment performs moves until the script is exhausted
    loop {
        let more = w(|w| !w.panicked && w.pos < w.script.len());
        if !more {
            break;
        }
        let r = catch_unwind(AssertUnwindSafe(run_moves));
        if r.is_err() {
            w(|w| {
                w.panicked = true;
                w.depth = 0;
                let sub = w.ctx.first().copied().unwrap_or(0);
                w.ctx.clear();
                if w.recording {
                    if w.subs > 1 {
                        w.out.push(format!("{}:PANIC", sub));
                    } else {
                        w.out.push("PANIC".to_string());
                    }
                }
            });
        }
    }
    let mut out = w(|w| std::mem::take(&mut w.out));
    if std::env::var("CB_EVALS").is_ok() {
        out.push(format!("evals:{}", w(|w| w.evals)));
        out.push(format!("shared_copies:{}", w(|w| w.inst_subs.values().filter(|s| s.len() > 1).count())));
    }
    // drop the world (closures, tasks) outside of any borrow
    let old = W.with(|w| std::mem::take(&mut *w.borrow_mut()));
    let _ = catch_unwind(AssertUnwindSafe(move || drop(old)));
    out.join(" ")
}

fn main() {
    std::panic::set_hook(Box::new(|_| {}));
    #[cfg(feature = "subscriber")]
    {
        // a subscriber that formats every event (so Debug impls run) into a sink
        let _ = tracing_subscriber::fmt()
            .with_max_level(tracing::Level::TRACE)
            .with_writer(std::io::sink)
            .try_init();
    }
    let args: Vec<String> = std::env::args().collect();
    let mode = args.get(1).map(|s| s.as_str()).unwrap_or("seq");
    let stdin = io::stdin();
    let stdout = io::stdout();
    let mut out = stdout.lock();
    for line in stdin.lock().lines() {
        let line = line.unwrap();
        if line.trim().is_empty() {
            continue;
        }
        let res = match mode {
            "seq" => run_script(&line),
            "pipe" => pipeline::run_pipeline(&line),
            "threads" => threads::run_threads(&line),
            _ => panic!("unknown mode"),
        };
        writeln!(out, "{}", res).unwrap();
    }
}
