//! C06: closed pull pipelines (filled in later)
pub fn run_pipeline(_line: &str) -> String {
    String::new()
}
