//! C06: closed pull pipelines `pipe!(from_iter(xs), stages.., for_each(f))` on the real crate.
//!
//! input line : "xs=1,2,3 inf=- stages=map:2:1;filter:2:0;take:2"
//! output line: "F: user:3 user:7 nexts=4 | P: user:3 user:7 nexts=4 done=1"
//!   F = the crate's own for_each as the consumer; P = a for_each-like probe sink that also
//!   sees the completion.  `nexts` = number of Iterator::next calls on the input.

use std::cell::RefCell;
use std::panic::{catch_unwind, AssertUnwindSafe};
use std::sync::Arc;

use callbag::{concat, filter, flatten, for_each, from_iter, map, pipe, scan, skip, take, Message, Source};
use never::Never;

thread_local! {
    static OUT: RefCell<Vec<String>> = RefCell::new(vec![]);
    static NEXTS: RefCell<u64> = RefCell::new(0);
    static TB: RefCell<Option<Arc<Source<usize>>>> = RefCell::new(None);
    static DONE: RefCell<bool> = RefCell::new(false);
}

#[derive(Clone, Debug)]
struct CountIter {
    xs: Arc<Vec<u64>>,
    inf: Option<u64>,
    pos: usize,
}
impl Iterator for CountIter {
    type Item = usize;
    fn next(&mut self) -> Option<usize> {
        let n = NEXTS.with(|n| {
            *n.borrow_mut() += 1;
            *n.borrow()
        });
        if n > 100_000 {
            panic!("pipeline does not terminate");
        }
        let r = if self.pos < self.xs.len() {
            Some(self.xs[self.pos] as usize)
        } else {
            self.inf.map(|b| (b as usize) + (self.pos - self.xs.len()))
        };
        self.pos += 1;
        r
    }
    // an honest size_hint, as the iterators of Vec, arrays and ranges have: what is left is known exactly
    // (an operator that trusted it instead of calling next() would show in the number of next() calls)
    fn size_hint(&self) -> (usize, Option<usize>) {
        match self.inf {
            Some(_) => (usize::MAX, None),
            None => {
                // exact for inputs of even length, honest but loose (lower bound 0) for odd ones - what
                // a filtered or flat-mapped iterator reports
                let rem = self.xs.len().saturating_sub(self.pos);
                (if self.xs.len() % 2 == 0 { rem } else { 0 }, Some(rem))
            }
        }
    }
}

fn inner_vec(m: usize, x: usize) -> Vec<usize> {
    if m == 0 {
        vec![x]
    } else {
        (0..(x % m)).map(|j| x + j).collect()
    }
}

type Src = Arc<Source<usize>>;

fn apply_stage(src: Src, st: &str) -> Src {
    let parts: Vec<&str> = st.split(':').collect();
    let num = |i: usize| -> usize { parts.get(i).and_then(|s| s.parse().ok()).unwrap_or(0) };
    let list = |i: usize| -> Vec<usize> {
        parts
            .get(i)
            .map(|s| crate::parse_list(s).into_iter().map(|x| x as usize).collect())
            .unwrap_or_default()
    };
    match parts[0] {
        "map" => {
            let (a, b) = (num(1), num(2));
            Arc::new(map(move |x: usize| a * x + b)(src))
        }
        "filter" => {
            let (m, r) = (num(1), num(2));
            Arc::new(filter(move |x: &usize| *x % m == r)(src))
        }
        "scan" => {
            let (k, seed) = (num(1), num(2));
            Arc::new(scan(
                move |acc: usize, x: usize| match k {
                    0 => acc + x,
                    1 => std::cmp::max(acc, x),
                    _ => 2 * acc + x,
                },
                seed,
            )(src))
        }
        "take" => Arc::new(take(num(1))(src)),
        "skip" => Arc::new(skip(num(1))(src)),
        "append" => {
            let ys: Src = Arc::new(from_iter(list(1)));
            Arc::new(concat(vec![src, ys].into_boxed_slice()))
        }
        "prepend" => {
            let ys: Src = Arc::new(from_iter(list(1)));
            Arc::new(concat(vec![ys, src].into_boxed_slice()))
        }
        "cat" => {
            // concat! of several members: "_" is the pipeline so far, the others are from_iter over a list
            let members: Vec<Src> = parts
                .get(1)
                .copied()
                .unwrap_or("_")
                .split('/')
                .map(|m| -> Src {
                    if m == "_" {
                        Arc::clone(&src)
                    } else {
                        let ys: Vec<usize> = crate::parse_list(m).into_iter().map(|x| x as usize).collect();
                        Arc::new(from_iter(ys))
                    }
                })
                .collect();
            Arc::new(concat(members.into_boxed_slice()))
        }
        "flatmap" => {
            let m = num(1);
            let mapped: Arc<Source<Src>> =
                Arc::new(map(move |x: usize| -> Src { Arc::new(from_iter(inner_vec(m, x))) })(src));
            Arc::new(flatten(mapped))
        }
        other => panic!("unknown stage {}", other),
    }
}

fn rec(s: String) {
    OUT.with(|o| o.borrow_mut().push(s));
}

fn reset() {
    OUT.with(|o| o.borrow_mut().clear());
    NEXTS.with(|n| *n.borrow_mut() = 0);
    TB.with(|t| *t.borrow_mut() = None);
    DONE.with(|d| *d.borrow_mut() = false);
}

fn build(kv: &crate::Kv) -> Src {
    let xs = crate::parse_list(kv.get("xs").map(|s| s.as_str()).unwrap_or("-"));
    let inf = match kv.get("inf").map(|s| s.as_str()) {
        None | Some("-") => None,
        Some(b) => Some(b.parse::<u64>().unwrap()),
    };
    let mut src: Src = Arc::new(from_iter(CountIter {
        xs: Arc::new(xs),
        inf,
        pos: 0,
    }));
    let stages = kv.get("stages").cloned().unwrap_or_default();
    for st in stages.split(';').filter(|s| !s.is_empty() && *s != "-") {
        src = apply_stage(src, st);
    }
    src
}

/// a for_each-like consumer that also records the completion
fn probe() -> Arc<callbag::Sink<usize>> {
    Arc::new(
        (move |msg: Message<usize, Never>| match msg {
            Message::Handshake(tb) => {
                TB.with(|t| *t.borrow_mut() = Some(Arc::clone(&tb)));
                tb(Message::Pull);
            }
            Message::Data(x) => {
                rec(format!("user:{}", x));
                let tb = TB.with(|t| t.borrow().clone());
                if let Some(tb) = tb {
                    tb(Message::Pull);
                }
            }
            Message::Terminate => DONE.with(|d| *d.borrow_mut() = true),
            Message::Error(_) => rec("ERROR".to_string()),
            Message::Pull => rec("?Pull".to_string()),
        })
        .into(),
    )
}

fn finish(with_done: bool) -> String {
    let mut toks = OUT.with(|o| o.borrow().clone());
    toks.push(format!("nexts={}", NEXTS.with(|n| *n.borrow())));
    if with_done {
        toks.push(format!("done={}", if DONE.with(|d| *d.borrow()) { 1 } else { 0 }));
    }
    toks.join(" ")
}

/// pipe! itself is plain left-to-right application: fixed pipelines written with the macro,
/// printed in the same format as a dynamic pipeline with the same stages
fn static_pipe(which: &str, src: Src) -> Option<()> {
    let f = for_each(move |x: usize| rec(format!("user:{}", x)));
    match which {
        "1" => {
            pipe!(src, map(|x: usize| 2 * x + 1), f);
        }
        "2" => {
            pipe!(src, filter(|x: &usize| *x % 2 == 0), map(|x: usize| x + 3), take(2), f);
        }
        "3" => {
            pipe!(
                src,
                skip(1),
                scan(|a: usize, x: usize| a + x, 0),
                |s: Source<usize>| pipe!(s, map(|x: usize| 3 * x)),
                f
            );
        }
        _ => return None,
    }
    Some(())
}

pub fn run_pipeline(line: &str) -> String {
    let kv = crate::parse_header(line);
    let src = build(&kv);
    // F: the crate's for_each
    reset();
    let r = catch_unwind(AssertUnwindSafe(|| {
        if let Some(which) = kv.get("static") {
            // the base source only; the stages are written with pipe! in static_pipe
            let xs = crate::parse_list(kv.get("xs").map(|s| s.as_str()).unwrap_or("-"));
            let base: Src = Arc::new(from_iter(CountIter {
                xs: Arc::new(xs),
                inf: None,
                pos: 0,
            }));
            static_pipe(which, base);
        } else {
            for_each(move |x: usize| rec(format!("user:{}", x)))(Arc::clone(&src));
        }
    }));
    let f = if r.is_err() { "PANIC".to_string() } else { finish(false) };
    // P: the probe
    reset();
    let r = catch_unwind(AssertUnwindSafe(|| {
        src(Message::Handshake(probe()));
    }));
    let p = if r.is_err() { "PANIC".to_string() } else { finish(true) };
    format!("F: {} | P: {}", f, p)
}
