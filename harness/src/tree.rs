//! Closed compositions of crate operators over `from_iter` leaves, driven by a scripted sink.
//! No puppet sources: everything upstream of the sink is the crate's own code, so deviations of
//! one operator from the protocol meet the other operators for real (e.g. combine pulling a
//! `from_iter` member that already completed).  Only sink-side events exist; the extracted
//! protocol monitor judges them (C01-C03, C14, C17 "over programs").
//!
//! header: `op=tree tree=cb(fi:1;fi:10,20,30) env=std subs=1 | S0 P0 P0 r ...`

use std::sync::Arc;

use callbag::{combine, concat, filter, flatten, from_iter, map, merge, scan, skip, take, Source};

type Src = Arc<Source<usize>>;

struct P<'a> {
    s: &'a [u8],
    i: usize,
}

impl<'a> P<'a> {
    fn peek(&self) -> u8 {
        if self.i < self.s.len() {
            self.s[self.i]
        } else {
            0
        }
    }
    fn ident(&mut self) -> String {
        let st = self.i;
        while self.peek().is_ascii_alphabetic() {
            self.i += 1;
        }
        String::from_utf8_lossy(&self.s[st..self.i]).to_string()
    }
    /// ":a:b" style numeric arguments (also "-" and "," lists, returned raw)
    fn args(&mut self) -> Vec<String> {
        let mut out = vec![];
        while self.peek() == b':' {
            self.i += 1;
            let st = self.i;
            while self.peek().is_ascii_digit() || self.peek() == b',' || self.peek() == b'-' {
                self.i += 1;
            }
            out.push(String::from_utf8_lossy(&self.s[st..self.i]).to_string());
        }
        out
    }
    fn children(&mut self) -> Vec<Src> {
        let mut out = vec![];
        if self.peek() == b'(' {
            self.i += 1;
            loop {
                out.push(self.expr());
                if self.peek() == b';' {
                    self.i += 1;
                } else {
                    break;
                }
            }
            if self.peek() == b')' {
                self.i += 1;
            }
        }
        out
    }
    fn expr(&mut self) -> Src {
        let id = self.ident();
        let a = self.args();
        let num = |k: usize| -> usize { a.get(k).and_then(|s| s.parse().ok()).unwrap_or(0) };
        let mut ch = self.children();
        match id.as_str() {
            "fi" => {
                let xs: Vec<usize> = crate::parse_list(a.get(0).map(|s| s.as_str()).unwrap_or("-"))
                    .into_iter()
                    .map(|x| x as usize)
                    .collect();
                Arc::new(from_iter(xs))
            }
            "mp" => {
                let (x, y) = (num(0), num(1));
                Arc::new(map(move |v: usize| x * v + y)(ch.remove(0)))
            }
            "fl" => {
                let (m, r) = (num(0).max(1), num(1));
                Arc::new(filter(move |v: &usize| *v % m == r)(ch.remove(0)))
            }
            "tk" => Arc::new(take(num(0))(ch.remove(0))),
            "sk" => Arc::new(skip(num(0))(ch.remove(0))),
            "sc" => {
                let (k, seed) = (num(0), num(1));
                Arc::new(scan(
                    move |acc: usize, v: usize| if k == 0 { acc + v } else { std::cmp::max(acc, v) },
                    seed,
                )(ch.remove(0)))
            }
            "cc" => Arc::new(concat(ch.into_boxed_slice())),
            "mg" => Arc::new(merge(ch.into_boxed_slice())),
            "cb" => {
                let b = ch.remove(1);
                let a0 = ch.remove(0);
                let c: Arc<Source<(usize, usize)>> = Arc::new(combine((a0, b)));
                Arc::new(map(|(x, y): (usize, usize)| 100 * x + y)(c))
            }
            "fm" => {
                let m = num(0);
                let mapped: Arc<Source<Src>> = Arc::new(map(move |v: usize| -> Src {
                    let inner: Vec<usize> = if m == 0 { vec![v] } else { (0..(v % m)).map(|j| v + j).collect() };
                    Arc::new(from_iter(inner))
                })(ch.remove(0)));
                Arc::new(flatten(mapped))
            }
            other => panic!("unknown tree node {}", other),
        }
    }
}

pub fn build_tree(spec: &str) -> Src {
    let mut p = P { s: spec.as_bytes(), i: 0 };
    p.expr()
}
