//! C18/C19: thread schedules (filled in later)
pub fn run_threads(_line: &str) -> String {
    String::new()
}
