//! C18/C19: member sources delivering from real OS threads into take / merge / combine of the
//! real crate, under a deterministic token-passing scheduler.
//!
//! The crate is built with `--cfg callbag_verif`: every access to an instrumented shared cell
//! calls the hook installed here, which parks the calling worker thread until the controller
//! gives it the turn.  One more parking point sits inside every delivery to the recording sink
//! (between its begin and its end).  A *step* of thread t = t is released from the point it is
//! parked at, performs that access, and runs until it parks again or finishes - exactly the
//! step relation of coq/theories/Threads.v.
//!
//! input : "sys=take n=1 th=2 q0=1,2 q1=3 f0=N f1=N sched=0,1,1,0"
//! output: the trace "t0:<dn0:D1 t0:ret t1:<dn0:D3 ..." (same tokens as the model prints)

#[cfg(not(callbag_verif))]
pub fn run_threads(_line: &str) -> String {
    "NOHOOKS".to_string()
}

#[cfg(callbag_verif)]
pub use hooked::run_threads;

#[cfg(callbag_verif)]
mod hooked {
    use std::cell::Cell;
    use std::collections::HashMap;
    use std::panic::{catch_unwind, AssertUnwindSafe};
    use std::sync::atomic::{AtomicBool, Ordering};
    use std::sync::{Arc, Condvar, Mutex};

    use callbag::{combine, merge, take, Message, Sink, Source};
    use never::Never;

    use crate::{DynErr, Show, TestErr};

    thread_local! {
        static TID: Cell<Option<usize>> = Cell::new(None);
    }

    /// The payload of the member threads.  Copying it is a scheduling point of its own in runs with
    /// `free=2` (site "payload.clone"): a window between two accesses that contains a copy of the value -
    /// combine's copy-modify-publish of its tuple - can then be interleaved even when the accesses
    /// themselves have lost their hooks.
    #[derive(Debug)]
    pub struct P(pub usize);
    impl Clone for P {
        fn clone(&self) -> P {
            callbag::verif_hooks::yield_point("payload.clone");
            P(self.0)
        }
    }
    impl Show for P {
        fn show(&self) -> String {
            self.0.show()
        }
    }
    impl Show for (P, P) {
        fn show(&self) -> String {
            format!("({},{})", self.0 .0, self.1 .0)
        }
    }
    impl Show for (P, P, P) {
        fn show(&self) -> String {
            format!("({},{},{})", self.0 .0, self.1 .0, self.2 .0)
        }
    }

    struct SchedState {
        turn: Option<usize>,
        parked: Vec<bool>,
        finished: Vec<bool>,
    }

    pub struct Sched {
        m: Mutex<SchedState>,
        cv: Condvar,
        trace: Mutex<Vec<String>>,
    }

    impl Sched {
        fn new(n: usize) -> Arc<Self> {
            Arc::new(Sched {
                m: Mutex::new(SchedState {
                    turn: None,
                    parked: vec![false; n],
                    finished: vec![false; n],
                }),
                cv: Condvar::new(),
                trace: Mutex::new(vec![]),
            })
        }

        /// a worker reached a scheduling point
        fn park(&self, tid: usize) {
            let mut st = self.m.lock().unwrap();
            st.parked[tid] = true;
            if st.turn == Some(tid) {
                st.turn = None;
            }
            self.cv.notify_all();
            while st.turn != Some(tid) {
                st = self.cv.wait(st).unwrap();
            }
            st.parked[tid] = false;
        }

        fn finish(&self, tid: usize) {
            let mut st = self.m.lock().unwrap();
            st.finished[tid] = true;
            if st.turn == Some(tid) {
                st.turn = None;
            }
            self.cv.notify_all();
        }

        /// controller: wait until every worker is parked or finished and nobody has the turn
        fn settle(&self) {
            let mut st = self.m.lock().unwrap();
            loop {
                let idle = st.turn.is_none()
                    && (0..st.parked.len()).all(|t| st.parked[t] || st.finished[t]);
                if idle {
                    return;
                }
                st = self.cv.wait(st).unwrap();
            }
        }

        fn is_finished(&self, tid: usize) -> bool {
            self.m.lock().unwrap().finished[tid]
        }

        /// controller: let `tid` make one step
        fn release(&self, tid: usize) {
            {
                let mut st = self.m.lock().unwrap();
                st.turn = Some(tid);
                self.cv.notify_all();
            }
            self.settle();
        }

        fn rec(&self, tok: String) {
            if let Some(t) = TID.with(|t| t.get()) {
                self.trace.lock().unwrap().push(format!("t{}:{}", t, tok));
            }
        }
    }

    fn yield_here(s: &Sched) {
        if let Some(t) = TID.with(|t| t.get()) {
            s.park(t);
        }
    }

    fn err_token(e: &DynErr) -> String {
        match e.downcast_ref::<TestErr>() {
            Some(te) => format!("E{}", te.0),
            None => "E?".to_string(),
        }
    }

    fn mk_sink<O: Show + 'static>(s: Arc<Sched>) -> Arc<Sink<O>> {
        Arc::new(
            (move |msg: Message<O, Never>| {
                let tok = match msg {
                    Message::Handshake(_) => "<dn0:H".to_string(),
                    Message::Data(v) => format!("<dn0:D{}", v.show()),
                    Message::Terminate => "<dn0:T".to_string(),
                    Message::Error(e) => format!("<dn0:{}", err_token(&e)),
                    Message::Pull => "<dn0:?Pull".to_string(),
                };
                s.rec(tok);
                yield_here(&s);
                s.rec("ret".to_string());
            })
            .into(),
        )
    }

    type Handlers = Arc<Mutex<HashMap<usize, Arc<Sink<P>>>>>;

    /// member source i: stores the handler it is given; it greets later, from its thread
    fn mk_member(i: usize, hs: Handlers) -> Arc<Source<P>> {
        Arc::new(
            (move |msg: Message<Never, P>| {
                if let Message::Handshake(h) = msg {
                    hs.lock().unwrap().insert(i, h);
                }
            })
            .into(),
        )
    }

    fn mk_talkback(i: usize, s: Arc<Sched>, stopped: Arc<Vec<AtomicBool>>) -> Arc<Source<P>> {
        Arc::new(
            (move |msg: Message<Never, P>| match msg {
                Message::Terminate => {
                    s.rec(format!("<up{}:T", i));
                    stopped[i].store(true, Ordering::SeqCst);
                }
                Message::Error(e) => {
                    s.rec(format!("<up{}:{}", i, err_token(&e)));
                    stopped[i].store(true, Ordering::SeqCst);
                }
                Message::Pull => s.rec(format!("<up{}:P", i)),
                _ => s.rec(format!("<up{}:?", i)),
            })
            .into(),
        )
    }

    #[derive(Clone)]
    enum Fin {
        Term,
        Err(u64),
        Nothing,
    }

    pub fn run_threads(line: &str) -> String {
        let kv = crate::parse_header(line);
        let sys = kv.get("sys").cloned().unwrap_or_default();
        let n = crate::geti(&kv, "n", 1) as usize;
        let nth = crate::geti(&kv, "th", 2) as usize;
        let qs: Vec<Vec<u64>> = (0..nth)
            .map(|t| crate::parse_list(kv.get(&format!("q{}", t)).map(|s| s.as_str()).unwrap_or("-")))
            .collect();
        let fins: Vec<Fin> = (0..nth)
            .map(|t| match kv.get(&format!("f{}", t)).map(|s| s.as_str()).unwrap_or("N") {
                "T" => Fin::Term,
                "N" => Fin::Nothing,
                e => Fin::Err(e[1..].parse().unwrap()),
            })
            .collect();
        let sched_list: Vec<usize> =
            crate::parse_list(kv.get("sched").map(|s| s.as_str()).unwrap_or("-"))
                .into_iter()
                .map(|x| x as usize)
                .collect();

        // free=1: every instrumented access is a scheduling point, also the talkback cells
        // ("slot.*"), which are finer than the interleaving model: such runs are judged by the
        // property checks on their trace alone.  Otherwise the slot accesses are pass-through, so
        // that a step of the crate is a step of the model.
        let free_level = crate::geti(&kv, "free", 0);
        let free = free_level >= 1;
        // free=2: a copy of a payload is a scheduling point too (no model has it: such runs are judged by
        // the property checks on the trace alone)
        let free2 = free_level >= 2;
        let s = Sched::new(nth);
        {
            let s2 = Arc::clone(&s);
            callbag::verif_hooks::set_hook(Some(Arc::new(move |site: &'static str| {
                let on = if site == "payload.clone" {
                    free2
                } else {
                    free || !site.starts_with("slot.")
                };
                if on {
                    yield_here(&s2)
                }
            })));
        }
        let hs: Handlers = Arc::new(Mutex::new(HashMap::new()));
        let nmembers = if sys == "take" { 1 } else { nth };
        let stopped: Arc<Vec<AtomicBool>> =
            Arc::new((0..nmembers.max(1)).map(|_| AtomicBool::new(false)).collect());
        let members: Vec<Arc<Source<P>>> =
            (0..nmembers).map(|i| mk_member(i, Arc::clone(&hs))).collect();

        // build and subscribe on the controller thread (not registered: no parking, no events)
        match sys.as_str() {
            "take" => {
                let out = take(n)(Arc::clone(&members[0]));
                out(Message::Handshake(mk_sink::<P>(Arc::clone(&s))));
                // the single upstream greets at once, from the controller thread
                let h = hs.lock().unwrap().get(&0).cloned().unwrap();
                h(Message::Handshake(mk_talkback(0, Arc::clone(&s), Arc::clone(&stopped))));
            }
            "merge" => {
                let out = merge(members.clone().into_boxed_slice());
                out(Message::Handshake(mk_sink::<P>(Arc::clone(&s))));
            }
            "takemerge" => {
                let out = take(n)(Arc::new(merge(members.clone().into_boxed_slice())));
                out(Message::Handshake(mk_sink::<P>(Arc::clone(&s))));
            }
            "combine" => match nth {
                2 => {
                    let out = combine((Arc::clone(&members[0]), Arc::clone(&members[1])));
                    out(Message::Handshake(mk_sink::<(P, P)>(Arc::clone(&s))));
                }
                _ => {
                    let out = combine((
                        Arc::clone(&members[0]),
                        Arc::clone(&members[1]),
                        Arc::clone(&members[2]),
                    ));
                    out(Message::Handshake(mk_sink::<(P, P, P)>(Arc::clone(&s))));
                }
            },
            "takecombine" => match nth {
                2 => {
                    let out = take(n)(Arc::new(combine((
                        Arc::clone(&members[0]),
                        Arc::clone(&members[1]),
                    ))));
                    out(Message::Handshake(mk_sink::<(P, P)>(Arc::clone(&s))));
                }
                _ => {
                    let out = take(n)(Arc::new(combine((
                        Arc::clone(&members[0]),
                        Arc::clone(&members[1]),
                        Arc::clone(&members[2]),
                    ))));
                    out(Message::Handshake(mk_sink::<(P, P, P)>(Arc::clone(&s))));
                }
            },
            other => panic!("unknown sys {}", other),
        }

        let mut joins = vec![];
        for t in 0..nth {
            let s = Arc::clone(&s);
            let hs = Arc::clone(&hs);
            let stopped = Arc::clone(&stopped);
            let q = qs[t].clone();
            let fin = fins[t].clone();
            let direct = sys == "take";
            joins.push(std::thread::spawn(move || {
                TID.with(|c| c.set(Some(t)));
                let member = if direct { 0 } else { t };
                let h = hs.lock().unwrap().get(&member).cloned();
                let r = catch_unwind(AssertUnwindSafe(|| {
                    if let Some(h) = h {
                        if !direct {
                            h(Message::Handshake(mk_talkback(
                                member,
                                Arc::clone(&s),
                                Arc::clone(&stopped),
                            )));
                        }
                        let mut first = true;
                        for v in q {
                            // a member that was told to stop starts no further delivery
                            if !(direct && first) && stopped[member].load(Ordering::SeqCst) {
                                return;
                            }
                            first = false;
                            h(Message::Data(P(v as usize)));
                        }
                        if !direct && !stopped[member].load(Ordering::SeqCst) {
                            match fin {
                                Fin::Term => h(Message::Terminate),
                                Fin::Err(id) => h(Message::Error(Arc::new(TestErr(id)) as DynErr)),
                                Fin::Nothing => {}
                            }
                        }
                    }
                }));
                if r.is_err() {
                    s.rec("PANIC".to_string());
                }
                s.finish(t);
            }));
        }

        // every worker runs to its first scheduling point
        s.settle();
        for t in sched_list {
            if t < nth && !s.is_finished(t) {
                s.release(t);
            }
        }
        // then the remaining threads run to completion in index order
        loop {
            match (0..nth).find(|t| !s.is_finished(*t)) {
                Some(t) => s.release(t),
                None => break,
            }
        }
        for j in joins {
            let _ = j.join();
        }
        callbag::verif_hooks::set_hook(None);
        let tr = s.trace.lock().unwrap().clone();
        tr.join(" ")
    }
}
